"""Rules over the macro expander (engines E6 + E7): C09 (partial), C10, C11, C12 (partial) and
the comparator clause C06.e."""
import os
import re

from .facts import (Facts, AnalysisBroken, VERIF, walk_expr, walk_all_exprs, walk_stmts, show, strip_casts, strip_copies,
                    member_path, strip_conv)
from .genrules import GenModel, is_call, field_chain, direct_exprs, guard_implies
from .props_c02 import Multi
from . import cmpeval

MAC = 'Compiler/src/macro.cpp'


def W(f, e=None, facts=None):
    repo = facts.repo if facts else '/repo'
    rel = os.path.relpath(f['file'], repo)
    loc = (e.get('loc') if isinstance(e, dict) else e) if e is not None else f['loc'][1:]
    return '%s:%d' % (rel, loc[0]) if loc else rel


class MacroModel:
    def __init__(self):
        self.facts = Facts([MAC])
        self.M = Multi(self.facts)
        self.am = self.facts.fn('Theo::apply_macros')
        self.gr = self.facts.fn('get_replacement')
        # the budget loop: a `for` in apply_macros whose body mutates the token stream parameter
        self.input = self.am['params'][0]
        self.passes = self.am['params'][2]
        self.budget = None
        for st in walk_stmts(self.am['body']):
            if st['k'] == 'for' and self.mutations(st['body']):
                self.budget = st
                break
        if self.budget is None:
            # the expansion step may have been extracted into a helper that receives the token stream: the rules then run on a
            # copy of apply_macros with that helper (called from this one place only) put back
            from .inline import inlined
            def takes_stream(h, call):
                return any(self.is_input(a) for a in call.get('args', []))
            am2, names = inlined(self.facts, self.am, rounds=2, want=takes_stream)
            if names:
                for st in walk_stmts(am2['body']):
                    if st['k'] == 'for' and self.mutations(st['body']):
                        self.budget = st
                        break
                if self.budget is not None:
                    self.am = am2
                    self.inlined_helpers = names
        if self.budget is None:
            raise AnalysisBroken('apply_macros: no for-loop mutating the token stream (anchor vanished)')
        self.inner = None
        for st in walk_stmts(self.budget['body']):
            if st['k'] in ('for', 'rangefor', 'while') and st is not self.budget and self.mutations(st.get('body')):
                self.inner = st
                break

    def is_input(self, e):
        e = strip_casts(e)
        return e is not None and e.get('k') == 'ref' and e.get('d') == self.input['d']

    def mutations(self, s):
        out = []
        if s is None:
            return out
        for e in walk_all_exprs(s):
            if e.get('k') == 'call' and e.get('obj') is not None and self.is_input(e['obj']) and \
                    (e.get('callee') or '').split('::')[-1] in ('erase', 'insert', 'push_back', 'clear', 'operator=', 'resize', 'pop_back', 'emplace', 'emplace_back', 'assign', 'swap'):
                out.append(e)
            if e.get('k') == 'assign' and self.is_input(e['l']):
                out.append(e)
        return out


def counter_of(loop):
    init = loop.get('init')
    if not init or init['k'] != 'decl' or len(init['vars']) != 1:
        return None
    return init['vars'][0]


# ============================================================================= C11
def c11(rep, tier):
    mm = MacroModel()
    rep.note_facts(mm.facts)
    am = mm.am
    rep.analysed(am)
    A = rep.rule('C11.a', 'the token stream is rewritten only inside a loop `counter < budget` (strict) whose counter advances '
                          'once per iteration; at most one rewrite per iteration', floor=5)
    cv = counter_of(mm.budget)
    c = strip_casts(mm.budget.get('c')) if mm.budget.get('c') else None
    starts0 = cv is not None and cv.get('init') is not None and strip_casts(cv['init']).get('v') == 0
    # the condition may carry the change flag as a further conjunct (`changed && pass < passes` instead of `if (!changed) break`): the
    # bound is the conjunct that mentions the counter
    c_full = c
    cond_flags = []
    if c is not None and c.get('k') == 'bin' and c['op'] == '&&' and cv is not None:
        conj = []

        def _flat(x):
            x = strip_casts(x)
            while x is not None and x.get('k') == 'paren':
                x = strip_casts(x['e'])
            if x is not None and x.get('k') == 'bin' and x['op'] == '&&':
                _flat(x['l'])
                _flat(x['r'])
            elif x is not None:
                conj.append(x)
        _flat(c)
        bound = [x for x in conj if any(y.get('k') == 'ref' and y.get('d') == cv['d'] for y in walk_expr(x))]
        rest = [x for x in conj if x not in bound]
        if len(bound) == 1 and all(x.get('k') == 'ref' and (x.get('cty') or '').replace('const ', '') == 'bool' for x in rest):
            c = bound[0]
            cond_flags = [x.get('d') for x in rest]
    okc = cv is not None and c is not None and c.get('k') == 'bin' and (c['op'] == '<' or (c['op'] == '!=' and starts0)) and \
        strip_casts(c['l']).get('d') == cv['d'] and strip_casts(c['r']).get('d') == mm.passes['d']
    if cv is not None:
        rank = {'bool': 0, 'char': 1, 'signed char': 1, 'unsigned char': 1, 'short': 2, 'unsigned short': 2, 'int': 3, 'unsigned int': 3, 'long': 4, 'unsigned long': 4,
                'long long': 4, 'unsigned long long': 4}
        ct, pt = (cv.get('cty') or '').replace('const ', ''), (mm.passes.get('cty') or '').replace('const ', '')
        tmax = {'bool': 1, 'char': 127, 'signed char': 127, 'unsigned char': 255, 'short': 2 ** 15 - 1, 'unsigned short': 2 ** 16 - 1, 'int': 2 ** 31 - 1,
                'unsigned int': 2 ** 32 - 1, 'long': 2 ** 63 - 1, 'unsigned long': 2 ** 64 - 1, 'long long': 2 ** 63 - 1, 'unsigned long long': 2 ** 64 - 1}
        # the bound the counter is compared with is the budget itself, not the budget squeezed into a smaller type
        bound_cast = None
        if c is not None and c.get('k') == 'bin':
            r_ = c['r']
            while r_ is not None and r_.get('k') in ('cast', 'paren'):
                if r_.get('k') == 'cast':
                    tt = (r_.get('cty') or '').replace('const ', '')
                    if tt in tmax and pt in tmax and tmax[tt] < tmax[pt] and strip_casts(r_).get('d') == mm.passes['d']:
                        bound_cast = tt
                r_ = r_['e']
        if pt in tmax and not pt.startswith('unsigned'):
            A.violation('apply_macros: budget type', 'the budget parameter has the signed type %s: a caller\'s budget of %d or more (UINT_MAX for "no limit") arrives negative, no pass is made and input that '
                        'still contains macro uses is returned without the too-many-substitutions error' % (pt, tmax[pt] + 1), W(am, mm.budget, mm.facts), witness={'budget': 'UINT_MAX'})
        if bound_cast:
            A.violation('apply_macros: loop bound', 'the budget (%s) is converted to %s for the comparison: a budget above %d becomes negative or small, the loop does not run and an expansion '
                        'that is not finished is returned without the too-many-substitutions error' % (pt, bound_cast, tmax[bound_cast]), W(am, mm.budget, mm.facts),
                        witness={'budget': tmax[bound_cast] + 1, 'macro': 'DEFINE a AS b END DEFINE  a'})
        i0 = strip_casts(cv['init']) if cv.get('init') is not None else None
        if i0 is not None and i0.get('k') == 'int' and c is not None and c.get('k') == 'bin':
            steps_lost = i0['v'] - (1 if c['op'] == '<=' else 0)
            if steps_lost > 0:
                A.violation('apply_macros: number of passes', 'the counter starts at %d and runs while %s: only budget-%d passes are made - with a budget of %d no pass is made at all, the change flag '
                            'stays false and input that still contains a macro use is returned without the too-many-substitutions error' % (i0['v'], show(c), steps_lost, steps_lost),
                            W(am, mm.budget, mm.facts), witness={'budget': steps_lost, 'macro': 'DEFINE a AS b END DEFINE  a'})
        if ct in tmax and pt in tmax and rank.get(ct) is not None and rank[ct] >= rank[pt] and tmax[ct] < tmax[pt]:
            A.violation('apply_macros: counter width', 'the pass counter has type %s but the budget has type %s: for budgets beyond %d the counter cannot reach the budget (signed overflow / '
                        'a comparison that is false from the start)' % (ct, pt, tmax[ct]), W(am, mm.budget, mm.facts), witness={'budget': tmax[ct] + 1})
        elif ct in rank and pt in rank:
            A.check(rank[ct] >= rank[pt], 'apply_macros: counter width', 'the pass counter (%s) can hold every value of the budget (%s)' % (ct, pt),
                    'the pass counter has type %s but the budget has type %s: for budgets beyond the counter\'s range the counter wraps around, the loop condition stays '
                    'true and a divergent expansion never returns' % (ct, pt), W(am, mm.budget, mm.facts), witness={'budget': 1024, 'macro': 'DEFINE a AS a a END DEFINE'})
    A.check(okc, 'apply_macros: loop condition', '%s < %s' % (cv['name'] if cv else '?', mm.passes['name']),
            'budget loop condition is %s: more than `passes` rewrites are possible' % (show(c) if c else 'missing'), W(am, mm.budget, mm.facts))
    inc = strip_casts(mm.budget.get('inc')) if mm.budget.get('inc') else None
    okinc = inc is not None and cv is not None and ((inc.get('k') == 'un' and inc['op'] == '++' and strip_casts(inc['e']).get('d') == cv['d']) or
                                                    (inc.get('k') == 'assign' and inc['op'] == '+=' and strip_casts(inc['r']).get('v') == 1))
    writes = []
    for e in walk_all_exprs(mm.budget['body']):
        tgt = None
        if e.get('k') == 'assign':
            tgt = strip_casts(e['l'])
        elif e.get('k') == 'un' and e['op'] in ('++', '--'):
            tgt = strip_casts(e['e'])
        if tgt is not None and cv is not None and tgt.get('d') in (cv['d'], mm.passes['d']):
            writes.append(e)
    for e in walk_all_exprs(am['body']):
        if e.get('k') in ('assign',) and strip_casts(e['l']).get('d') == mm.passes['d']:
            writes.append(e)
    A.check(okinc and not writes, 'apply_macros: counter discipline', 'incremented once per iteration, counter and budget never written in the body',
            'counter/budget modified: %s' % ([show(w) for w in writes] or show(inc)), W(am, mm.budget, mm.facts))
    allmut = mm.mutations(am['body'])
    inloop = mm.mutations(mm.budget['body'])
    A.check(len(allmut) == len(inloop) and len(allmut) >= 1, 'apply_macros: rewrites only inside the budget loop', '%d mutation(s) of the stream, all inside the loop' % len(allmut),
            'the token stream is rewritten outside the budget loop', W(am, None, mm.facts))
    # ---- path properties over the CFG of apply_macros
    g = mm.M.cfg(am)
    bud_cond = [n for n in g.nodes if n.kind == 'cond' and n.stmt is mm.budget]
    bud_cond = bud_cond[0] if bud_cond else None
    # the change flag: the bool local tested by the guard of the too-many-substitutions error
    flag = None
    for ev in g.calls():
        if is_call(ev.e, '::push_back') and 'MACRO_APPLY_REACHED_MAX_PASSES' in show(ev.e):
            for cond, label, cn in g.guards_of(ev):
                c0 = strip_casts(cn.exprs[0]) if cn.exprs else None
                if label is True and c0 is not None and c0.get('k') == 'ref' and (c0.get('cty') or '').replace('const ', '') == 'bool':
                    flag = c0
    mut_evs = [g.ev(mu) for mu in inloop if mu.get('sid') in g.by_sid]
    sets = [ev for ev in g.events if flag is not None and ev.e.get('k') == 'assign' and strip_casts(ev.e['l']).get('d') == flag.get('d') and
            strip_casts(ev.e['r']).get('v') is True and any(x is ev.e for x in walk_all_exprs(mm.budget['body']))]
    resets = [ev for ev in g.events if flag is not None and ev.e.get('k') == 'assign' and strip_casts(ev.e['l']).get('d') == flag.get('d') and
              strip_casts(ev.e['r']).get('v') is False and any(x is ev.e for x in walk_all_exprs(mm.budget['body']))]

    def reach_avoiding(src_node, avoid_ids):
        seen, work = set(), list(src_node.succ)
        while work:
            n = work.pop()
            if n.id in seen or n.id in avoid_ids:
                continue
            seen.add(n.id)
            work.extend(n.succ)
        return seen
    in_body = set()
    if bud_cond is not None:
        body_ids = set(n.id for n in g.nodes if any(x is n.stmt for x in walk_stmts(mm.budget['body'])) or
                       (n.kind in ('branch', 'cond') and n.of is not None and any(x is getattr(n.of, 'stmt', None) for x in walk_stmts(mm.budget['body']))))
    # one rewrite per counted pass: after a splice, control cannot come back to it without going through the loop condition
    def flag_writes(node, after_idx=-1):
        st = None
        for ev2 in node.events:
            if ev2.idx <= after_idx:
                continue
            e2 = ev2.e
            if flag is not None and e2.get('k') == 'assign' and strip_casts(e2['l']).get('d') == flag.get('d'):
                v2 = strip_casts(e2['r']).get('v')
                st = True if v2 is True else (False if v2 is False else '?')
        return st

    def reach_with_flag(mev, avoid_ids):
        """nodes reachable from the splice without passing avoid_ids, following only the branches that agree with the value of
        the change flag along the path (the flag is known after an assignment of a literal)"""
        st0 = True if any(g.dominates(sv, mev) for sv in sets) else '?'
        w = flag_writes(mev.node, mev.idx)
        if w is not None:
            st0 = w
        seen = set()
        work = [(x, st0) for x in mev.node.succ]
        out = set()
        while work:
            n, st = work.pop()
            if (n.id, st) in seen or n.id in avoid_ids:
                continue
            seen.add((n.id, st))
            out.add(n.id)
            if n.kind == 'branch' and flag is not None and n.of is not None and n.of.exprs and isinstance(n.label, bool) and st in (True, False):
                c = g.expanded(n.of.exprs[0])
                is_flag = lambda z: z.get('k') == 'ref' and z.get('d') == flag.get('d')
                # the branch is taken only if its condition can hold with flag == st
                if guard_implies(c, n.label, is_flag, (not st)):
                    continue          # this branch requires the opposite flag value
            w = flag_writes(n)
            st2 = w if w is not None else st
            for x in n.succ:
                work.append((x, st2))
        return out
    repeated = None
    for mev in mut_evs:
        if bud_cond is None:
            break
        r = reach_with_flag(mev, {bud_cond.id})
        if mev.node.id in r:
            repeated = mev
            break
    if bud_cond is None or not mut_evs:
        A.unknown('apply_macros: one rewrite per pass', 'budget loop / splice not found in the control-flow graph')
    else:
        A.check(repeated is None, 'apply_macros: one rewrite per pass', 'after a splice every path passes the test of the budget loop before the next splice',
                'several rewrites can happen within one counted pass: the splice at line %s can be reached again without passing the budget test' % (
                    repeated.e['loc'][0] if repeated else ''), W(am, repeated.e if repeated else None, mm.facts))
    # the splice sets the flag (before or after it, within the pass) and nothing clears it afterwards in that pass
    if flag is None:
        A.unknown('apply_macros: the rewrite sets the change flag', 'change flag not identified (no bool guard of the too-many-substitutions error)')
    else:
        okset = bool(mut_evs) and all(any(g.dominates(sv, mev) or g.postdominates(sv, mev) for sv in sets) for mev in mut_evs)
        cleared = None
        for mev in mut_evs:
            r = reach_avoiding(mev.node, {bud_cond.id} if bud_cond is not None else set())
            for rv in resets:
                if rv.node.id in r or (rv.node is mev.node and rv.idx > mev.idx):
                    cleared = rv
        A.check(okset and cleared is None, 'apply_macros: the rewrite sets the change flag', 'every splice is accompanied by %s = true and the flag is not cleared before the pass ends' % flag['name'],
                ('the flag is cleared again at line %s after a splice in the same pass' % cleared.e['loc'][0]) if cleared else 'a splice can happen without the change flag being set',
                W(am, (cleared.e if cleared else (mut_evs[0].e if mut_evs else None)), mm.facts))
    # a match that was found is rewritten: inside the branch that holds the splice no path leaves that branch without splicing
    if mut_evs and bud_cond is not None:
        mut_exprs = [mv.e for mv in mut_evs]
        holder = None
        for st in walk_stmts(mm.budget['body']):
            if st['k'] == 'if' and st.get('t') is not None and all(any(x is me for x in walk_all_exprs(st['t'])) for me in mut_exprs):
                holder = st          # the innermost one is visited last (pre-order walk)
        if holder is not None:
            inside = set(id(x) for x in walk_stmts(holder['t']))
            bts = [n for n in g.nodes if n.kind == 'branch' and n.of is not None and n.of.stmt is holder and n.label is True]
            mut_nodes = set(mv.node.id for mv in mut_evs)
            escaped = None
            seen_n, work_n = set(), list(bts)
            while work_n and escaped is None:
                n = work_n.pop()
                if n.id in seen_n or n.id in mut_nodes:
                    continue
                seen_n.add(n.id)
                if n not in bts and (n.stmt is None or id(n.stmt) not in inside) and not (n.kind == 'branch' and n.of is not None and n.of.stmt is not None and id(n.of.stmt) in inside):
                    escaped = n
                    break
                work_n.extend(n.succ)
            A.check(escaped is None, 'apply_macros: a match that was found is rewritten', 'inside `if (%s)` every path reaches the splice' % show(holder['c'])[:50],
                    'inside `if (%s)` a path leaves without splicing: a pattern still matches, nothing is rewritten and the pass counts as "nothing changed" - the '
                    'expansion stops unfinished without the too-many-substitutions error' % show(holder['c'])[:50], W(am, holder, mm.facts))
    # whatever happens, the caller gets the token stream back: every return of apply_macros is preceded by `result.transformed_sequence = <stream>`
    rets_am = [st for st in walk_stmts(am['body']) if st['k'] == 'return' and st.get('e') is not None]
    seq_sets = [ev for ev in g.events if (ev.e.get('k') == 'assign' or (ev.e.get('k') == 'call' and (ev.e.get('callee') or '').endswith('::operator='))) and
                field_chain(ev.e.get('l') or ev.e.get('obj'))[1][-1:] == ['transformed_sequence']]
    if rets_am and seq_sets:
        for st in rets_am:
            rn = [n for n in g.nodes if n.stmt is st]
            if not rn:
                continue
            rv = strip_copies(strip_casts(st['e']))
            if rv is None or rv.get('k') != 'ref':
                continue            # a result built in the return expression: checked by the compiler's aggregate rules, not here
            okr = any(sv.node.id in g.dom[rn[0].id] or sv.node is rn[0] for sv in seq_sets)
            A.check(okr, 'apply_macros: return at line %d' % st['loc'][0], 'dominated by the assignment of the token stream to the result',
                    'apply_macros can return at line %d without having put the token stream into its result: the caller gets an empty stream (not even the end-of-file token) - the '
                    'front end reads its first token from it' % st['loc'][0], W(am, st, mm.facts), witness={'input': 'a main file that is absent (no definitions at all)'} if not okr else None)
    # the budget loop is left only by its bound or by "nothing changed in this pass"
    def exits_of(loop):
        out = []

        def rec(st, breakable):
            if st is None:
                return
            k = st['k']
            if k == 'return':
                out.append(st)
            elif k == 'break' and not breakable:
                out.append(st)
            from .facts import stmt_children
            ss, es = stmt_children(st)
            inner_breakable = breakable or (k in ('for', 'while', 'do', 'rangefor', 'switch'))
            for c in ss:
                rec(c, inner_breakable if st is not loop['body'] else breakable)
        rec(loop['body'], False)
        return out
    bad_exits = []
    early = False
    for x in exits_of(mm.budget):
        n = [nn for nn in g.nodes if nn.stmt is x]
        okx = False
        if flag is not None:
            # guards of the exit: the enclosing conditions
            conds = []
            for st in walk_stmts(mm.budget['body']):
                if st['k'] == 'if' and any(y is x for y in walk_stmts(st['t'])):
                    conds.append((st['c'], True))
                if st['k'] == 'if' and st.get('e') is not None and any(y is x for y in walk_stmts(st['e'])):
                    conds.append((st['c'], False))
            for c, lab in conds:
                if guard_implies(g.expanded(c), lab, lambda z: z.get('k') == 'ref' and z.get('d') == flag.get('d'), False):
                    okx = True
        if okx and x['k'] == 'break':
            early = True
        if not okx:
            bad_exits.append(x)
    A.check(not bad_exits, 'apply_macros: exits of the budget loop', 'left only when a whole pass changed nothing or when the budget is used up',
            'the loop can be left at line %s without "nothing changed in this pass": an unfinished expansion is passed on without the too-many-substitutions error'
            % (bad_exits[0]['loc'][0] if bad_exits else ''), W(am, bad_exits[0] if bad_exits else None, mm.facts))
    calls = [e for e in walk_all_exprs(mm.budget['body']) if is_call(e, 'get_replacement')]
    inst_ok = len(calls) == 1 and calls[0].get('sid') in g.by_sid and bool(mut_evs) and all(g.dominates(g.by_sid[calls[0]['sid']], mev) or g.by_sid[calls[0]['sid']].node is mev.node for mev in mut_evs if (mev.e.get('callee') or '').endswith('::insert'))
    A.check(inst_ok, 'apply_macros: one instantiation per rewrite',
            'get_replacement is called once and its result is what the splice inserts', '%d get_replacement call(s), not tied to the splice' % len(calls), W(am, None, mm.facts))

    B = rep.rule('C11.b', 'the change flag is reset at the top of every pass; after the loop a set flag is reported as '
                          'MACRO_APPLY_REACHED_MAX_PASSES', floor=2)
    # the reset dominates every splice and every setting of the flag within the pass
    okreset = flag is not None and bool(resets) and any(all(g.dominates(rv, x) for x in mut_evs + sets) for rv in resets)
    reset_how = '%s = false at the start of the pass, before any splice' % (flag['name'] if flag else 'flag')
    if not okreset and flag is not None and bud_cond is not None and mut_evs:
        # another way of keeping the flag right (e.g. `changed = expand_once(..)` after inlining): follow every path through one pass,
        # starting with the flag set (as the previous pass may have left it), and look at the pair (a splice happened, value of the flag)
        # wherever the pass ends - they have to agree
        mut_ids = set(id(mv.e) for mv in mut_evs)
        ends = set()
        seen_s = set()
        starts = [b for b in bud_cond.succ if b.kind == 'branch' and b.label is True] or list(bud_cond.succ)
        work = [(n, False, True) for n in starts]
        is_flag = lambda z: z.get('k') == 'ref' and z.get('d') == flag.get('d')
        while work:
            n, spliced, fv = work.pop()
            if n.id == bud_cond.id or (n.id not in body_ids and n.kind not in ('branch',) and n not in starts):
                ends.add((spliced, fv))
                continue
            if (n.id, spliced, fv) in seen_s:
                continue
            seen_s.add((n.id, spliced, fv))
            if n.kind == 'branch' and n.of is not None and n.of.exprs and isinstance(n.label, bool) and fv in (True, False):
                if guard_implies(g.expanded(n.of.exprs[0]), n.label, is_flag, (not fv)):
                    continue
            for ev2 in n.events:
                e2 = ev2.e
                if id(e2) in mut_ids:
                    spliced = True
                if e2.get('k') == 'assign' and strip_casts(e2['l']).get('d') == flag.get('d'):
                    v2 = strip_casts(e2['r']).get('v')
                    fv = True if v2 is True else (False if v2 is False else '?')
            for x in n.succ:
                work.append((x, spliced, fv))
        if ends and all(fv in (True, False) and fv == sp for sp, fv in ends):
            okreset = True
            reset_how = 'at the end of every path through a pass %s is true exactly when a splice happened on that path (%d end states)' % (flag['name'], len(ends))
        else:
            bad_ends = sorted((sp, str(fv)) for sp, fv in ends if not (fv in (True, False) and fv == sp))
            reset_why = 'the change flag is not reset per pass: a pass can end with %s' % '; '.join(
                '%s = %s although %s' % (flag['name'], fv, 'a splice happened' if sp else 'no splice happened in it') for sp, fv in bad_ends[:2])
    B.check(okreset, 'apply_macros: flag reset', reset_how,
            locals().get('reset_why', 'the change flag is not reset per pass'), W(am, mm.budget, mm.facts))
    okerr = False
    for ev in g.calls():
        if is_call(ev.e, '::push_back') and 'errors' in show(ev.e['obj']) and 'MACRO_APPLY_REACHED_MAX_PASSES' in show(ev.e):
            # after the loop, guarded by the flag
            inside = any(x is ev.e for x in walk_all_exprs(mm.budget['body']))
            guarded = flag is not None and any(label is True and strip_casts(cond).get('d') == flag.get('d') for cond, label, cn in g.guards_of(ev))
            okerr = (not inside) and guarded
    B.check(okerr, 'apply_macros: exhaustion reported', 'if (changed) push MACRO_APPLY_REACHED_MAX_PASSES after the loop',
            'an exhausted budget is not reported: an unfinished expansion passes as correct', W(am, None, mm.facts))
    # the flag that is tested after the loop is the one the last pass left: nothing clears it in between
    if flag is not None:
        for ev in g.events:
            e = ev.e
            if e.get('k') == 'assign' and strip_casts(e['l']).get('d') == flag.get('d') and not any(x is e for x in walk_all_exprs(mm.budget)):
                # an assignment outside the budget loop: before it (initialisation) or after it
                bud_cond = [n for n in g.nodes if n.kind == 'cond' and n.stmt is mm.budget]
                after = bool(bud_cond) and bud_cond[0].id in g.dom[ev.node.id]
                if not after:
                    continue
                val = strip_casts(e['r'])
                if e.get('op', '=') == '=' and any(is_call(x, '::detect') for x in walk_expr(e['r'])) and not any(
                        y.get('k') == 'ref' and y.get('d') == flag.get('d') for y in walk_expr(e['r'])):
                    # flag = d.detect(..)  in a loop over detectors that goes on afterwards: the last detector decides alone
                    for st in walk_stmts(am['body']):
                        if st is mm.budget or st['k'] not in ('rangefor', 'for', 'while') or not any(x is e for x in walk_all_exprs(st.get('body'))):
                            continue
                        innermost = not any(st2 is not st and st2['k'] in ('rangefor', 'for', 'while') and any(x is e for x in walk_all_exprs(st2.get('body')))
                                            for st2 in walk_stmts(st.get('body')))
                        if not innermost:
                            continue
                        stops = (st.get('c') is not None and any(y.get('k') == 'ref' and y.get('d') == flag.get('d') for y in walk_expr(st['c']))) or \
                            any(s2['k'] in ('break', 'return') for s2 in walk_stmts(st.get('body')))
                        if not stops:
                            B.violation('apply_macros: flag after the loop', 'after the budget loop the flag is recomputed as `%s` for each detector in turn without stopping at the first match: '
                                        'the last detector visited decides alone, so an unfinished expansion is returned without the too-many-substitutions error whenever the macro '
                                        'that still matches is not the last one of its bin' % show(e)[:70], W(am, e, mm.facts),
                                        witness={'macros': 'DEFINE spin AS spin END DEFINE  DEFINE other AS x END DEFINE', 'input': 'x0 := spin'})
                if val.get('k') == 'bool' and val.get('v') is False or val.get('v') is False:
                    # cleared after the loop: sound only if *no* usable detector matches any more
                    gtxt = ' '.join(show(c) for c, l, cn in g.guards_of(ev))
                    in_loop_over_all = any(st['k'] in ('rangefor', 'for') and any(x is e for x in walk_all_exprs(st['body'])) and
                                           any(t in show(st.get('range') or st.get('c') or {}) for t in ('prios', 'usable', 'detectors'))
                                           for st in walk_stmts(am['body']) if st is not mm.budget)
                    if 'detect' in gtxt and not in_loop_over_all:
                        B.violation('apply_macros: flag after the loop', 'the change flag is cleared after the budget loop when ONE detector no longer matches (%s): with mutually '
                                    'recursive macros the macro that fired last never matches its own output, so an unfinished expansion is returned without the '
                                    'too-many-substitutions error' % gtxt[:100], W(am, e, mm.facts), witness={'macros': 'DEFINE ping AS pong END DEFINE  DEFINE pong AS ping END DEFINE', 'input': 'x0 := ping'})
                    else:
                        B.unknown('apply_macros: flag after the loop', 'the change flag is cleared after the budget loop under %s' % (gtxt[:100] or 'no condition'))
    # leaving early when nothing changed (computed above: a break out of the budget loop under !flag)
    if flag is not None and flag.get('d') in cond_flags:
        early = True        # the loop condition itself carries the flag: a pass that changed nothing ends the loop
    B.check(early, 'apply_macros: stop when stable', 'if (!changed) break', 'the loop does not stop when no pattern matches (error would be reported for finished expansions)',
            W(am, mm.budget, mm.facts))

    pf = Facts(['Compiler/src/parse.cpp'])
    rep.note_facts(pf)
    parse = pf.fn('Theo::parse')
    Cc = rep.rule('C11.c', 'parse() forwards the errors of every stage (scanner, extraction, application) before deciding correctness', floor=3)
    forwarded_errors_rule(Cc, pf, parse)
    D = rep.rule('C11.d', 'parse() passes a positive constant budget', floor=1)
    calls = [e for e in walk_all_exprs(parse['body']) if is_call(e, 'Theo::apply_macros')]
    if not calls:
        D.unknown('parse', 'no apply_macros call')
    for i_, c_ in enumerate(calls):
        a = strip_casts(c_['args'][2])
        D.check(a.get('k') == 'int' and a['v'] >= 1, 'parse: budget' + ('' if len(calls) == 1 else ' (call %d)' % (i_ + 1)), 'constant %s' % a.get('v'), 'budget argument is %s' % show(a), W(parse, c_, pf))


def forwarded_errors_rule(R, pf, parse):
    """every local whose type has an `errors` member (results of the stages) is merged into a.errors"""
    stage_vars = []
    for st in walk_stmts(parse['body']):
        if st['k'] == 'decl':
            for v in st['vars']:
                if v['cty'] in ('Theo::ScanResult', 'Theo::MacroExtractionResult', 'Theo::MacroApplicationResult'):
                    stage_vars.append(v)
    merged = set()
    merge_call_events = []
    # the merge: a loop pushing into a.errors from a collection built from X.errors
    for st in walk_stmts(parse['body']):
        if st['k'] == 'rangefor':
            pushes = [e for e in walk_all_exprs(st['body']) if is_call(e, '::push_back') and field_chain(e['obj'])[1][-1:] == ['errors']]
            if pushes:
                rng = strip_casts(st['range'])
                src = rng
                if rng.get('k') == 'ref':
                    # collection variable: its initialiser lists the stage error vectors
                    for st2 in walk_stmts(parse['body']):
                        if st2['k'] == 'decl':
                            for v in st2['vars']:
                                if v['d'] == rng.get('d') and v.get('init') is not None:
                                    src = v['init']
                for x in walk_expr(src):
                    if x.get('k') == 'member' and x['name'] == 'errors':
                        b = strip_casts(x['base'])
                        if b.get('k') == 'ref':
                            merged.add(b.get('d'))
    # ... or a helper (lambda / function) that appends a given error list to a.errors, called with X.errors
    appenders = set()
    for f2 in pf.functions:
        if f2['tmpl'] == 'pattern':
            continue
        is_local_lambda = f2['kind'] == 'lambda' and f2.get('parent', '').startswith('Theo::parse')
        if not (is_local_lambda or f2['file'] == parse['file']):
            continue
        for st in walk_stmts(f2['body']):
            if st['k'] == 'rangefor' and strip_casts(st['range']).get('dk') == 'param':
                if any(is_call(e, '::push_back') and field_chain(e['obj'])[1][-1:] == ['errors'] for e in walk_all_exprs(st['body'])):
                    appenders.add(f2['q'])
    for e in walk_all_exprs(parse['body']):
        if e.get('k') == 'call' and ((e.get('callee_lambda_id') in appenders) or (e.get('callee') in appenders)):
            for a in e['args']:
                for x in walk_expr(a):
                    if x.get('k') == 'member' and x['name'] == 'errors' and strip_casts(x['base']).get('k') == 'ref':
                        merged.add(strip_casts(x['base']).get('d'))
                        merge_call_events.append(e)
    # no way out of parse() between a stage and the merge
    from .props_c02 import Multi
    M2 = Multi(pf)
    g = M2.cfg(parse)
    merge_nodes = []
    for st in walk_stmts(parse['body']):
        if st['k'] == 'rangefor':
            if any(is_call(e, '::push_back') and field_chain(e['obj'])[1][-1:] == ['errors'] for e in walk_all_exprs(st['body'])):
                merge_nodes.extend(n for n in g.nodes if n.stmt is st and n.kind == 'cond')
    for e in merge_call_events:
        if e.get('sid') in g.by_sid:
            merge_nodes.append(g.by_sid[e['sid']].node)
    stage_calls = [ev for ev in g.calls() if (ev.e.get('callee') or '') in ('Theo::scan', 'Theo::extract_macros', 'Theo::apply_macros')]
    early = []
    for rn in g.returns():
        after_stage = any(sc.node.id in g.dom[rn.id] for sc in stage_calls)
        if after_stage and not any(mn.id in g.dom[rn.id] for mn in merge_nodes):
            early.append(rn)
    R.check(not early and bool(merge_nodes), 'parse: no return before the merge', 'every return after a stage is dominated by the merge of the stage errors',
            'parse() can return at line %s after a stage ran but before its errors were merged: the tree is incorrect with an empty error list'
            % (early[0].stmt['loc'][0] if early else '?'), W(parse, early[0].stmt if early else None, pf))
    # inside the merge every error is forwarded: the push is not skipped for some of them
    for st in walk_stmts(parse['body']):
        if st['k'] != 'rangefor':
            continue
        for e in walk_all_exprs(st['body']):
            if is_call(e, '::push_back') and field_chain(e['obj'])[1][-1:] == ['errors'] and e.get('sid') in g.by_sid:
                if any(x is not st and x['k'] == 'rangefor' and any(y is e for y in walk_all_exprs(x['body'])) for x in walk_stmts(st['body'])):
                    continue      # judged at the innermost loop
                ev = g.by_sid[e['sid']]
                conds = [(c, l) for c, l, cn in g.guards_of(ev) if isinstance(l, bool) and cn.stmt is not None and cn.stmt.get('k') == 'if' and
                         any(x is cn.stmt for x in walk_stmts(st['body']))]
                skips = [x for x in walk_stmts(st['body']) if x['k'] in ('continue', 'break')]
                R.check(not conds and not skips and not ev.conditional, 'parse: every error is forwarded', 'the push into the syntax-error list is unconditional inside the merge',
                        'the merge skips some errors (%s): a stage can fail while the error list stays empty, so the parse counts as correct' % (
                            show(conds[0][0])[:60] if conds else ('%s at line %s' % (skips[0]['k'], skips[0]['loc'][0]) if skips else 'conditional expression')),
                        W(parse, e, pf))
    for v in stage_vars:
        R.check(v['d'] in merged, 'parse: %s.errors' % v['name'], 'merged into the syntax-error list', 'the errors of stage %s (%s) are dropped' % (v['name'], v['cty']),
                W(parse, v, pf))
    return stage_vars


# ============================================================================= C10
def c10(rep, tier):
    mm = MacroModel()
    rep.note_facts(mm.facts)
    gr = mm.gr
    rep.analysed(gr, mm.am)
    A = rep.rule('C10.a', 'the renamed temporary depends on the token text and the pass number and on nothing that differs '
                          'between two tokens of one macro body', floor=1)
    B = rep.rule('C10.b', 'the renamed temporary contains a character no identifier can contain', floor=1)
    Cc = rep.rule('C10.c', 'the renamed token becomes an identifier', floor=1)
    D = rep.rule('C10.d', 'the pass argument is the counter of the budget loop', floor=1)
    # TEMP_VAL case of the switch over cand.t
    case = None
    loopvar = None
    for st in walk_stmts(gr['body']):
        if st['k'] == 'rangefor':
            loopvar = st['var']
            for sw in walk_stmts(st['body']):
                if sw['k'] == 'switch':
                    for c in sw['cases']:
                        if any(isinstance(l, dict) and l.get('name') == 'TEMP_VAL' for l in c['labels']):
                            case = c
    if case is None or loopvar is None:
        raise AnalysisBroken('get_replacement: TEMP_VAL case not found (anchor vanished)')
    passp = [p for p in gr['params'] if p['cty'] in ('int', 'unsigned int')]
    # the new text: value assigned to <token>.text in this case
    text_e = None
    kind_ok = False
    for s in case['s']:
        for e in walk_all_exprs(s):
            tgt = val = None
            if e.get('k') == 'assign':
                tgt, val = e['l'], e['r']
            elif e.get('k') == 'call' and (e.get('callee') or '').endswith('::operator=') and e.get('obj') is not None:
                tgt, val = e['obj'], e['args'][0]
            if tgt is not None:
                root, path = field_chain(tgt)
                if path == ['text']:
                    text_e = mm.M.origin(gr, val)
                if path == ['t'] and 'ID' == show(val).split('::')[-1]:
                    kind_ok = True
            if e.get('k') == 'construct' and e.get('rec') == 'Theo::Token' and len(e.get('args', [])) == 4:
                # the renamed token built with the constructor: Token(kind, text, file, line)
                text_e = mm.M.origin(gr, e['args'][1])
                if show(strip_casts(e['args'][0])).split('::')[-1] == 'ID':
                    kind_ok = True
    if text_e is None:
        A.unknown('get_replacement: TEMP_VAL', 'no assignment to .text found')
        return
    # the renamed token is complete when it is appended: no write to the appended copy's source afterwards
    gT = mm.M.cfg(gr)
    for s in case['s']:
        for e in walk_all_exprs(s):
            if (is_call(e, '::push_back') or is_call(e, '::emplace_back')) and e.get('args'):
                pv = strip_casts(strip_copies(e['args'][0]))
                if pv is None or pv.get('k') != 'ref' or pv.get('dk') != 'var':
                    continue
                pev = gT.ev(e)
                for s2 in case['s']:
                    for e2 in walk_all_exprs(s2):
                        tgt = None
                        if e2.get('k') == 'assign':
                            tgt = e2['l']
                        elif e2.get('k') == 'call' and (e2.get('callee') or '').endswith('::operator=') and e2.get('obj') is not None:
                            tgt = e2['obj']
                        if tgt is None:
                            continue
                        root, path = field_chain(tgt)
                        root = strip_casts(root) if root is not None else None
                        if root is not None and root.get('d') == pv.get('d') and path and path[-1] in ('text', 't'):
                            wev = gT.ev(e2)
                            after = gT.dominates(pev, wev) or (pev.node is wev.node and pev.idx < wev.idx)
                            if after:
                                (A if path[-1] == 'text' else Cc).violation(
                                    'get_replacement: %s written after the append' % show(tgt), 'the token is appended (a copy) before %s is assigned: the appended token keeps the '
                                    'old %s, so every expansion shares the un-renamed temporary' % (show(tgt), 'text #n' if path[-1] == 'text' else 'kind TEMP_VAL'), W(gr, e2, mm.facts),
                                    witness={'input': 'two uses of a macro whose body contains #0'})
    text_e = mm.M.inline_value(gr, text_e)
    # the pass number enters the name as a decimal numeral that is different for every pass of the budget
    if passp:
        leaves = []

        def concat_leaves(x):
            x = strip_casts(strip_copies(x)) if x is not None else None
            if x is None:
                return
            if x.get('k') == 'call' and x.get('op') == '+' and len((([x['obj']] if x.get('obj') is not None else []) + list(x.get('args', [])))) == 2:
                for y in ([x['obj']] if x.get('obj') is not None else []) + list(x.get('args', [])):
                    concat_leaves(y)
                return
            if x.get('k') == 'paren':
                concat_leaves(x['e'])
                return
            leaves.append(x)
        concat_leaves(text_e)
        pass_leaves = [x for x in leaves if any(y.get('k') == 'ref' and y.get('d') == passp[0]['d'] for y in walk_expr(x))]

        class _NoEval(Exception):
            pass

        def sval(x, n):
            x = strip_casts(strip_copies(x)) if x is not None else None
            if x is None:
                raise _NoEval('empty')
            k = x.get('k')
            if k == 'paren':
                return sval(x['e'], n)
            if k == 'int':
                return x['v']
            if k == 'str':
                return x['v']
            if k == 'ref' and x.get('d') == passp[0]['d']:
                return n
            if k == 'bin' and x['op'] in ('+', '-', '*', '%', '/'):
                a, b = sval(x['l'], n), sval(x['r'], n)
                if not (isinstance(a, int) and isinstance(b, int)) or (x['op'] in ('%', '/') and b == 0):
                    raise _NoEval(show(x))
                import operator as _o
                return {'+': _o.add, '-': _o.sub, '*': _o.mul, '%': _o.mod, '/': _o.floordiv}[x['op']](a, b)
            if k == 'call' and (x.get('callee') or '') == 'std::to_string' and len(x.get('args', [])) == 1:
                v = sval(x['args'][0], n)
                if not isinstance(v, int):
                    raise _NoEval(show(x))
                return str(v)
            if k == 'call' and (x.get('callee') or '').endswith('::substr') and x.get('obj') is not None:
                base = sval(x['obj'], n)
                args_ = [sval(a, n) for a in x.get('args', []) if not a.get('default_arg') and 'npos' not in show(a)]
                if not isinstance(base, str) or not all(isinstance(a, int) for a in args_) or not args_ or args_[0] > len(base):
                    raise _NoEval(show(x))
                return base[args_[0]:] if len(args_) == 1 else base[args_[0]:args_[0] + args_[1]]
            if k == 'construct' and len(x.get('args', [])) == 1:
                return sval(x['args'][0], n)
            raise _NoEval(show(x)[:60])
        BUDGET = 1024
        for pl in pass_leaves:
            try:
                seen_names = {}
                clash = None
                for n in range(BUDGET):
                    v = sval(pl, n)
                    if v in seen_names:
                        clash = (seen_names[v], n, v)
                        break
                    seen_names[v] = n
                if clash:
                    A.violation('get_replacement: pass numeral', 'the part of the name that carries the pass number, %s, is "%s" both in pass %d and in pass %d (budget %d): '
                                'temporaries of these two expansions coincide' % (show(pl)[:60], clash[2], clash[0], clash[1], BUDGET), W(gr, pl, mm.facts),
                                witness={'input': 'a program that needs more than %d macro rewrites with #n temporaries live across them' % clash[1]})
                else:
                    A.ok('get_replacement: pass numeral', '%s is different for each of the %d passes of the default budget' % (show(pl)[:50], BUDGET), W(gr, pl, mm.facts))
            except _NoEval as ex:
                A.unknown('get_replacement: pass numeral', 'cannot evaluate how the pass number enters the name (%s)' % ex, W(gr, pl, mm.facts))
    deps_tok, deps_other, lits, has_pass = set(), [], [], False
    for x in walk_expr(text_e):
        if x.get('k') == 'str':
            lits.append(x['v'])
        if x.get('k') == 'ref' and passp and x.get('d') == passp[0]['d']:
            has_pass = True
        if x.get('k') == 'member' and x.get('mk') == 'field':
            root, path = field_chain(x)
            if root is not None and strip_casts(root).get('d') == loopvar['d'] and len(path) == 1:
                deps_tok.add(path[0])
    why = []
    if 'text' not in deps_tok:
        why.append('does not depend on the temporary\'s own text (#n)')
    if not has_pass:
        # another source of per-expansion uniqueness?  a counter kept in storage reached through a parameter
        counters = []
        for x in walk_expr(text_e):
            if x.get('k') == 'ref' and x.get('dk') == 'var':
                for dd in mm.M.defs(gr).get(x.get("d"), []):
                    d = dd[1]
                    if d is None:
                        continue
                    for y in walk_expr(d):
                        if y.get('k') == 'un' and y['op'] in ('++', '--'):
                            counters.append(y)
            if x.get('k') == 'un' and x['op'] in ('++', '--'):
                counters.append(x)
        verdict = None
        for cexp in counters:
            root, path = field_chain(cexp['e'])
            root = strip_casts(root) if root is not None else None
            pidx = [i for i, p in enumerate(gr['params']) if root is not None and root.get('d') == p.get('d')]
            callsites = [e for e in walk_all_exprs(mm.am['body']) if is_call(e, 'get_replacement')]
            if not pidx or len(callsites) != 1 or len(callsites[0]['args']) <= pidx[0]:
                continue
            if '&' not in gr['params'][pidx[0]]['cty']:
                verdict = 'the per-expansion counter %s lives in a by-value parameter: every call starts from the same value, expansions share temporaries' % show(cexp['e'])
                break
            # storage the argument refers to: *it with it = min_element(X.begin(), ...)  ->  X
            a = strip_casts(callsites[0]['args'][pidx[0]])
            while a is not None and (a.get('k') == 'un' and a['op'] == '*' or is_call(a, '::operator*')):
                a = strip_casts(a.get('e') or a.get('obj') or (a['args'][0] if a.get('args') else None))
            a = mm.M.origin(mm.am, a) if a is not None else None
            store = None
            for y in (walk_expr(a) if a is not None else []):
                if is_call(y, '::begin') and y.get('obj') is not None and strip_casts(y['obj']).get('k') == 'ref':
                    store = strip_casts(y['obj'])
                    break
            if store is None and a is not None and a.get('k') == 'ref':
                store = a
            if store is not None:
                inside = any(st['k'] == 'decl' and any(v.get('d') == store.get('d') for v in st['vars']) for st in walk_stmts(mm.budget['body']))
                if inside:
                    verdict = ('the per-expansion counter %s is kept in %s, which is created afresh inside every pass of the budget loop: the '
                               'increment is lost and every expansion of the macro gets the same number, so expansions share temporaries' % (show(cexp['e']), store.get('name')))
                    break
        if verdict:
            why.append(verdict)
        elif counters:
            A.unknown('get_replacement: temporary name', 'uniqueness source is not the pass number but a counter whose storage could not be classified')
            return
        else:
            why.append('does not depend on the pass number: expansions share temporaries')
    # the name identifies the definition it comes from: file and line of a per-definition token
    def_fields = set()
    for x in walk_expr(text_e):
        if x.get('k') == 'member' and x.get('mk') == 'field' and x.get('name') in ('file', 'line'):
            root, path = field_chain(x)
            if root is not None and strip_casts(root).get('d') != loopvar['d']:
                def_fields.add(x['name'])
    if def_fields and def_fields != {'file', 'line'}:
        why.append('the name carries the %s of the definition but not its %s: two definitions that agree on it (macros of two files on equal line numbers) give their temporaries the '
                   'same names, which meet as soon as both have been expanded into one stream with equal step numbers (library macros applied in a first call, the program\'s in a second)'
                   % (sorted(def_fields)[0], sorted({'file', 'line'} - def_fields)[0]))
    extra = sorted(deps_tok - {'text'})
    if extra:
        why.append('depends on per-token attribute(s) %s of the body token: one #n splits into several variables when the body spans '
                   'files/lines' % extra)
    A.check(not why, 'get_replacement: temporary name', 'f(cand.text, pass, per-definition values, literals)', '; '.join(why), W(gr, text_e, mm.facts),
            witness={'input': 'DEFINE foo AS #1 := 5; include "b"\\nEND DEFINE\\nfoo   with file b = x0 := #1',
                     'effect': 'two variables for one #1'} if extra else None)
    # the whole name may pass through an in-repo helper before it is stored: if everything that helper can append is an identifier
    # character, the marker characters do not survive
    sanitiser = None
    top = strip_casts(strip_copies(text_e))
    if top is not None and top.get('k') == 'call' and top.get('callee_in_repo') and top.get('obj') is None and top.get('ck') != 'operator':
        hh = mm.facts.fn(top.get('callee'), optional=True)
        if hh is not None and hh.get('body') is not None and identifier_only_result(mm, hh):
            sanitiser = hh
    if sanitiser is not None:
        B.violation('get_replacement: unnameable', 'the name is passed through %s(), which builds its result from identifier characters only (everything it appends is a letter, digit or '
                    '\'_\'): the characters that no user identifier can contain are replaced, and a user variable spelled like the result is captured' % sanitiser['q'].split('::')[-1],
                    W(gr, text_e, mm.facts), witness={'input': 'a user variable named like the sanitised temporary, e.g. __0_main_theo_3__M0_'})
    else:
      B.check(any(re.search(r'[^A-Za-z0-9_]', s) for s in lits), 'get_replacement: unnameable', 'literal part %s' % [s for s in lits if re.search(r'[^A-Za-z0-9_]', s)][:2],
            'the new name consists of identifier characters only: a user variable can collide', W(gr, text_e, mm.facts))
    Cc.check(kind_ok, 'get_replacement: kind', 'next.t = ID', 'the renamed token keeps kind TEMP_VAL', W(gr, None, mm.facts))
    calls = [e for e in walk_all_exprs(mm.am['body']) if is_call(e, 'get_replacement')]
    cv = counter_of(mm.budget)
    if not passp:
        D.unknown('apply_macros: pass argument', 'get_replacement takes no pass number: uniqueness mechanism differs from the one this rule knows')
        return
    pi = [i for i, p in enumerate(gr['params']) if p.get('d') == passp[0]['d']][0]
    okd = len(calls) == 1 and cv is not None and len(calls[0]['args']) > pi and \
        (strip_casts(calls[0]['args'][pi]).get('d') == cv['d'] or (strip_casts(mm.M.origin(mm.am, calls[0]['args'][pi])) or {}).get('d') == cv['d'])
    # ... and the instantiation happens once per counted pass: it is enclosed by the budget loop and the priority-bin loop only
    if calls:
        def loops_around(root, target, acc=()):
            from .facts import stmt_children
            if root is None or not any(x is target for x in walk_all_exprs(root)):
                return None
            ss, es = stmt_children(root)
            here = acc + ((root,) if root['k'] in ('for', 'while', 'do', 'rangefor') else ())
            for c in ss:
                r = loops_around(c, target, here)
                if r is not None:
                    return r
            return here
        la = loops_around(mm.budget['body'], calls[0]) or ()
        extra = [l for l in la if l is not mm.inner]
        D.check(not extra, 'apply_macros: one instantiation per pass number', 'get_replacement is enclosed by the budget loop and the bin loop only',
                'get_replacement runs inside a further loop (line %s): several expansion steps share one pass number and hence their temporaries' % (extra[0]['loc'][0] if extra else ''),
                W(mm.am, calls[0], mm.facts))
    # the pass numbers of one token stream are handed out once: the front end expands a stream with one call of apply_macros, not with a second
    # call on the output of the first (whose counter starts at 0 again while temporaries of the first round are still in the stream)
    try:
        pf10 = Facts(['Compiler/src/parse.cpp', 'Compiler/src/compiler.cpp'])
        rep.note_facts(pf10)
        for f10 in pf10.functions:
            if f10.get('body') is None or f10['tmpl'] == 'pattern' or not f10['file'].endswith(('parse.cpp', 'compiler.cpp')):
                continue
            acs = [e for e in walk_all_exprs(f10['body']) if is_call(e, 'Theo::apply_macros')]
            for e in acs:
                src = show(e['args'][0]) if e.get('args') else ''
                in_loop = any(st['k'] in ('for', 'while', 'do', 'rangefor') and any(x is e for x in walk_all_exprs(st.get('body'))) for st in walk_stmts(f10['body']))
                again = 'transformed_sequence' in src
                D.check(not again and not in_loop, '%s: apply_macros(%s, ...)' % (f10['q'].split('::')[-1], src[:30]), 'one application per token stream',
                        'macro application is run again on %s: the pass counter restarts at 0, so a temporary #n of the second round gets the name of a temporary of the first round that is '
                        'still in the stream' % ('a stream that was already expanded' if again else 'the stream inside a loop'), W(f10, e, pf10),
                        witness={'input': 'a program that needs more than 1024 rewrites and uses one macro with #n at equal step numbers of both rounds'} if (again or in_loop) else None)
    except AnalysisBroken as ex:
        D.unknown('front end: applications of apply_macros', str(ex))
    D.check(okd, 'apply_macros: pass argument', 'get_replacement(..., %s)' % (cv['name'] if cv else '?'), 'pass argument is %s' % (show(calls[0]['args'][pi]) if calls and len(calls[0]['args']) > pi else None),
            W(mm.am, calls[0] if calls else None, mm.facts))


# ============================================================================= C09
def c09(rep, tier):
    mm = MacroModel()
    rep.note_facts(mm.facts)
    am, gr = mm.am, mm.gr
    rep.analysed(am, gr)
    A = rep.rule('C09.a', 'ties between macros of one priority are broken by (start ascending, length descending) with a strict weak order', floor=1)
    comps = [(f, k, h) for f, k, h in cmpeval.find_comparators(mm.facts) if k == 'std::min_element' and h is not None and
             (h['q'] == 'Theo::apply_macros' or h['q'] in getattr(mm, 'inlined_helpers', []))]
    proj = []
    if not comps:
        # std::ranges::min_element(range, {}, projection): the default order on what a one-parameter lambda returns
        lam1 = {f['q']: f for f in mm.facts.functions if f['kind'] == 'lambda' and len(f.get('params', [])) == 1}
        for e in walk_all_exprs(am['body']):
            if e.get('k') == 'call' and 'min_element' in ((e.get('callee') or '') + (e.get('callee_sig') or '')):
                for a in e.get('args', []):
                    for x in walk_expr(a):
                        if x.get('k') == 'lambda' and x.get('fn') in lam1:
                            proj.append((lam1[x['fn']], e))
    if not comps and len(proj) == 1:
        pf_, pe_ = proj[0]
        rets = [st for st in walk_stmts(pf_['body']) if st['k'] == 'return' and st.get('e') is not None]
        flds = field_chain(strip_copies(strip_casts(rets[0]['e'])))[1] if len(rets) == 1 else []
        rtxt = show(strip_copies(strip_casts(rets[0]['e']))).strip('()') if len(rets) == 1 else ''
        if (flds and flds[-1] == 'location') or rtxt.endswith(('.location', '->location')):
            A.violation('apply_macros: min_element comparator', 'the match is chosen by a projection on the start position alone (%s): among matches that start at the same token the first one '
                        'found wins, not the longest' % show(rets[0]['e'])[:50], W(pf_, None, mm.facts),
                        witness={'input': 'DEFINE PRIO 5 foo <ID> AS y := 2 END DEFINE  DEFINE PRIO 5 foo <ID> bar AS x := 1 END DEFINE  foo z bar',
                                 'effect': 'the shorter macro wins; swapping the definitions changes the result'})
        else:
            A.unknown('apply_macros: min_element comparator', 'min_element with a projection that is not understood (%s)' % (show(rets[0]['e'])[:60] if rets else 'no single return'))
    elif len(comps) != 1:
        A.unknown('apply_macros: min_element comparator', '%d comparators found' % len(comps))
    else:
        f = comps[0][0]
        try:
            c = cmpeval.Cmp(f)
            tbl, problems, cnt = c.analyse(need_discriminating=False)
            loc = [x for x in c.fields if x.endswith('location')]
            ln = [x for x in c.fields if x.endswith('length')]
            ref_bad = None
            if len(loc) == 1 and len(ln) == 1 and len(c.fields) == 2:
                ref = cmpeval.lexicographic([(loc[0], '<'), (ln[0], '>')])
                for combo, v in tbl.items():
                    sigma = dict(zip(c.fields, combo))
                    if v != ref(sigma):
                        ref_bad = 'returns %s when start compares %s and length compares %s; leftmost-then-longest requires %s' % (
                            v, sigma[loc[0]], sigma[ln[0]], ref(sigma))
                        break
            else:
                ref_bad = 'compares fields %s, expected location and length' % c.fields
            why = [p[1] for p in problems] + ([ref_bad] if ref_bad else [])
            A.check(not why, 'apply_macros: min_element comparator', 'equals (location <, length >) on all 9 orderings; strict weak order (%d triples)' % cnt,
                    '; '.join(why), W(f, None, mm.facts),
                    witness={'input': 'DEFINE PRIO 5 foo <ID> bar AS x := 1 END DEFINE  DEFINE PRIO 5 foo <ID> AS y := 2 END DEFINE  foo z bar',
                             'effect': 'the shorter macro wins; swapping the definitions changes the result'} if why else None)
        except cmpeval.CrossField as ex:
            A.violation('apply_macros: min_element comparator', str(ex), W(f, None, mm.facts))
        except cmpeval.Unsupported as ex:
            A.unknown('apply_macros: min_element comparator', str(ex))
    B = rep.rule('C09.b', 'priority bins are an ascending std::map visited with reverse iterators from the highest', floor=2)
    # the priority keeps its value from the definition to the bins: no narrower field on the way
    WIDTH = {'long': 8, 'long long': 8, 'unsigned long': 8, 'unsigned long long': 8, 'int': 4, 'unsigned int': 4, 'short': 2, 'unsigned short': 2,
             'char': 1, 'signed char': 1, 'unsigned char': 1, 'bool': 1}
    for f2 in mm.facts.functions:
        if f2.get('body') is None or not f2['file'].endswith('macro.cpp') or f2['tmpl'] == 'pattern':
            continue
        for x in walk_all_exprs(f2['body']):
            if x.get('k') == 'assign' and x.get('op', '=') == '=':
                l = strip_casts(x['l'])
                if l is not None and l.get('k') == 'member' and l.get('name') == 'priority':
                    r0 = x['r']
                    while r0 is not None and r0.get('k') == 'cast':
                        r0 = r0['e']
                    lt, rt = (l.get('cty') or '').replace('const ', ''), ((strip_copies(r0) or {}).get('cty') or '').replace('const ', '')
                    if lt in WIDTH and rt in WIDTH and WIDTH[lt] < WIDTH[rt]:
                        B.violation('%s: %s' % (f2['q'].split('::')[-1], show(x)[:40]), 'the priority is stored in a field of type %s but is converted as %s: priorities of %d and more wrap '
                                    'around, and the bins are no longer visited in the order of the written priorities' % (lt, rt, 2 ** (8 * WIDTH[lt] - 1)), W(f2, x, mm.facts),
                                    witness={'input': 'DEFINE PRIO 65536 a AS ... END DEFINE  DEFINE PRIO 1 a AS ... END DEFINE'})
    prios = None
    for st in walk_stmts(am['body']):
        if st['k'] == 'decl':
            for v in st['vars']:
                if v['cty'].startswith('std::map<int,'):
                    prios = v
    if prios is None:
        B.unknown('apply_macros', 'priority map not found')
    else:
        B.check('greater' not in prios['cty'] and prios['cty'].count(',') <= 3, 'apply_macros: bin order', 'std::map<int, ...> with the default (ascending) comparator',
                'priority map type is %s' % prios['cty'], W(am, prios, mm.facts))
        inner = mm.inner
        okrev = False
        if inner is not None and inner['k'] == 'for' and inner.get('init') and inner['init']['k'] == 'decl':
            iv = inner['init']['vars'][0]
            i0 = strip_casts(iv['init'])
            cnd = inner.get('c')
            okrev = is_call(i0, '::rbegin') and strip_casts(i0['obj']).get('d') == prios['d'] and cnd is not None and 'rend' in show(cnd) and \
                inner.get('inc') is not None and '++' in show(inner['inc'])
        ascending = False
        if inner is not None and inner['k'] == 'rangefor' and strip_casts(inner['range']).get('d') == prios['d']:
            ascending = True
        if inner is not None and inner['k'] == 'for' and inner.get('init') and inner['init']['k'] == 'decl':
            i0_ = strip_casts(inner['init']['vars'][0].get('init'))
            if (is_call(i0_, '::begin') or is_call(i0_, '::cbegin')) and strip_casts(i0_['obj']).get('d') == prios['d'] and inner.get('inc') is not None and '++' in show(inner['inc']):
                ascending = True
        lower_start = None
        if not okrev and inner is not None and inner['k'] == 'for' and inner.get('init') and inner['init']['k'] == 'decl':
            i0_ = strip_casts(strip_copies(inner['init']['vars'][0].get('init')))
            cnd_ = inner.get('c')
            if i0_ is not None and i0_.get('k') == 'ref' and i0_.get('dk') == 'var' and cnd_ is not None and 'rend' in show(cnd_):
                defs_ = mm.M.defs(am).get(i0_['d'], [])
                srcs = [strip_casts(strip_copies(x[1])) for x in defs_ if x[1] is not None]
                if srcs and any(not (is_call(x, '::rbegin') and strip_casts(x['obj']).get('d') == prios['d']) for x in srcs) and \
                        any(is_call(x, '::rbegin') for x in srcs):
                    lower_start = i0_['name']
        if lower_start:
            B.violation('apply_macros: bins visited from the highest', 'the sweep over the bins starts at %s, which is not always the highest bin: a replacement can make a '
                        'higher-priority macro applicable that is then tried only after lower ones' % lower_start, W(am, inner, mm.facts))
        elif okrev:
            B.ok('apply_macros: bins visited from the highest', 'for (p = prios.rbegin(); p != prios.rend(); p++)', W(am, inner, mm.facts))
        elif ascending:
            B.violation('apply_macros: bins visited from the highest', 'the bins of the ascending map are visited from begin(): the lowest priority is tried first', W(am, inner, mm.facts))
        else:
            B.unknown('apply_macros: bins visited from the highest', 'the iteration over the priority bins has a shape that is not recognised')
    D = rep.rule('C09.d', 'the erased range is [location, location+length) and the body is inserted at location of the same match', floor=2)
    muts = mm.mutations(am['body'])
    er = [e for e in muts if (e.get('callee') or '').endswith('::erase')]
    ins = [e for e in muts if (e.get('callee') or '').endswith('::insert')]
    if len(er) != 1 or len(ins) != 1:
        D.unknown('apply_macros: splice', '%d erase / %d insert' % (len(er), len(ins)))
    else:
        def pos(e, depth=0):
            """input.begin() + X (+ Y) -> list of addends after begin(); locals holding such an iterator are looked through, and the
            iterator that erase(first, last) returns stands for `first`"""
            e = strip_conv(e)
            adds = []
            while e is not None and depth < 6:
                if e.get('k') == 'call' and e.get('op') == '+':
                    a = e['args'][0] if e.get('obj') is not None else e['args'][1]
                    adds.append(show(strip_casts(a)))
                    e = strip_conv(e['obj'] if e.get('obj') is not None else e['args'][0])
                    continue
                if e.get('k') == 'ref' and e.get('dk') == 'var':
                    o = mm.M.origin(am, e)
                    if o is not None and o is not e:
                        e = strip_conv(o)
                        depth += 1
                        continue
                if is_call(e, '::erase') and e.get('obj') is not None and mm.is_input(e['obj']) and e.get('args'):
                    e = strip_conv(e['args'][0])
                    depth += 1
                    continue
                break
            isb = is_call(e, '::begin') and mm.is_input(e['obj'])
            return isb, list(reversed(adds))
        b0, a0 = pos(er[0]['args'][0])
        b1, a1 = pos(er[0]['args'][1])
        b2, a2 = pos(ins[0]['args'][0])
        ok = b0 and b1 and b2 and len(a0) == 1 and a0[0].endswith('location') and len(a1) == 2 and a1[0] == a0[0] and a1[1].endswith('length') and \
            a1[1].rsplit('.', 1)[0] == a0[0].rsplit('.', 1)[0] and a2 == a0
        D.check(ok, 'apply_macros: erase range', '[begin+%s, begin+%s+%s)' % (a0[0] if a0 else '?', a1[0] if a1 else '?', a1[1] if len(a1) > 1 else '?'),
                'erase(%s, %s)' % (show(er[0]['args'][0]), show(er[0]['args'][1])), W(am, er[0], mm.facts))
        g = mm.M.cfg(am)
        D.check(ok and g.dominates(g.ev(er[0]), g.ev(ins[0])), 'apply_macros: insert position', 'insert at begin+location of the same match, after the erase',
                'insert position %s' % show(ins[0]['args'][0]), W(am, ins[0], mm.facts))
    E = rep.rule('C09.e', 'body instantiation: $n -> tokens matched by slot n; #n -> renamed; every other token copied unchanged', floor=3)
    loopvar = None
    sw = None
    for st in walk_stmts(gr['body']):
        if st['k'] == 'rangefor':
            loopvar = st['var']
            for s2 in walk_stmts(st['body']):
                if s2['k'] == 'switch':
                    sw = s2
    if sw is None:
        E.unknown('get_replacement', 'switch over the body token kind not found')
    else:
        cases = {}
        for c in sw['cases']:
            for l in c['labels']:
                cases[l if isinstance(l, str) else l.get('name')] = c
        # INSERTION
        ci = cases.get('INSERTION')
        ok = False
        why = 'no INSERTION case'
        if ci is not None:
            # the ways of appending a whole sequence: result.insert(result.end(), X.begin(), X.end()),
            # std::copy(X.begin(), X.end(), std::back_inserter(result)), for (t : X) result.push_back(t)
            inss = []      # (source expression, appended at the end?)
            for s_ in ci['s']:
                for e in walk_all_exprs(s_):
                    if is_call(e, '::insert') and len(e.get('args', [])) == 3:
                        a = strip_conv(e['args'][1])
                        inss.append((strip_casts(a['obj']) if is_call(a, '::begin') else None, is_call(strip_conv(e['args'][0]), '::end')))
                    elif (e.get('k') == 'call' and (e.get('callee') or '') in ('std::copy', 'std::ranges::copy') and len(e.get('args', [])) == 3):
                        a, b_, o_ = (strip_conv(x) for x in e['args'])
                        same = is_call(a, '::begin') and is_call(b_, '::end') and show(strip_casts(a['obj'])) == show(strip_casts(b_['obj']))
                        inss.append((strip_casts(a['obj']) if same else None, (o_.get('callee') or '').startswith('std::back_inserter')))
                for st_ in walk_stmts(s_):
                    if st_['k'] == 'rangefor':
                        pbs = [x for x in walk_all_exprs(st_['body']) if is_call(x, '::push_back')]
                        if len(pbs) == 1 and strip_casts(strip_copies(pbs[0]['args'][0])).get('d') == st_['var']['d']:
                            inss.append((strip_casts(st_['range']), True))
            why = 'the case appends %d sequences, expected one' % len(inss)
            if len(inss) == 1:
                src = mm.M.origin(gr, inss[0][0]) if inss[0][0] is not None else None
                src = strip_casts(src) if src is not None else None
                # resp.matched[def.template_token_indices[ind]]
                if is_call(src, '::operator[]') and show(src['obj']).endswith('matched'):
                    idx = strip_casts(src['args'][0])
                    if is_call(idx, '::operator[]') and show(idx['obj']).endswith('template_token_indices'):
                        n = mm.M.origin(gr, idx['args'][0])
                        txt = show(n)
                        ok = False
                        why = 'index is %s' % txt
                        # the function that turns the digits into the index converts the whole string (strtol & co.), not a part of it
                        n0 = strip_casts(strip_copies(n))
                        if n0 is not None and n0.get('k') == 'call' and n0.get('callee_in_repo') and n0.get('obj') is None:
                            hconv = mm.facts.fn(n0.get('callee'), optional=True)
                            if hconv is not None and hconv.get('body') is not None:
                                bodies_ = [hconv['body']]
                                for x in walk_all_exprs(hconv['body']):
                                    # a conversion wrapped in a further in-repo helper (parseDecimal(tok))
                                    if x.get('k') == 'call' and x.get('callee_in_repo') and x.get('obj') is None:
                                        h2 = mm.facts.fn(x.get('callee'), optional=True)
                                        if h2 is not None and h2.get('body') is not None and h2 is not hconv:
                                            bodies_.append(h2['body'])
                                convs = [x for b_ in bodies_ for x in walk_all_exprs(b_) if x.get('k') == 'call' and (x.get('callee') or '').split('::')[-1] in
                                         ('strtol', 'strtoll', 'strtoul', 'strtoull', 'stoi', 'stol', 'stoll', 'stoul', 'atoi', 'atol', 'from_chars')]
                                single = [x for x in walk_all_exprs(hconv['body']) if is_call(x, '::operator[]') and x.get('args') and strip_casts(x['args'][0]).get('k') == 'int' and
                                          strip_casts(x['obj']).get('dk') == 'param']
                                single += [x for x in walk_all_exprs(hconv['body']) if (is_call(x, '::front') or is_call(x, '::back')) and x.get('obj') is not None and strip_casts(x['obj']).get('dk') == 'param']
                                if not convs and single:
                                    E.violation('get_replacement: $n digits', '%s() computes the index from one character of the digit string (%s) instead of converting the whole string: '
                                                '$10 and above denote another slot than the one extract_macros validated' % (hconv['q'], show(single[0])), W(hconv, single[0], mm.facts),
                                                witness={'macro': 'a macro with eleven slots whose body uses $10'})
                                elif not convs:
                                    E.unknown('get_replacement: $n digits', '%s() does not call a string-to-integer conversion: how the index is computed was not recognised' % hconv['q'])
                        subs = [x for x in walk_expr(n) if is_call(x, '::substr') and loopvar['name'] + '.text' in show(x.get('obj') or {})]
                        if len(subs) == 1 and subs[0].get('args'):
                            a0 = strip_casts(subs[0]['args'][0])
                            a1 = strip_casts(subs[0]['args'][1]) if len(subs[0]['args']) > 1 and not subs[0]['args'][1].get('default_arg') else None
                            rest = a1 is None or (a1.get('k') == 'bin' and a1['op'] == '-' and 'size()' in show(a1['l']) and strip_casts(a1['r']).get('v') == 1) or \
                                is_call(a1, '::size') or is_call(a1, '::length') or 'npos' in show(a1)
                            if a0.get('k') == 'int' and a0['v'] == 1 and rest:
                                ok = True
                            elif a0.get('k') == 'int' and a1 is not None and a1.get('k') == 'int':
                                why = 'the index is parsed from %d character(s) of the token text only (%s): $10 and above denote the wrong slot' % (a1['v'], show(subs[0]))
                            elif a0.get('k') == 'int' and a0['v'] != 1:
                                why = 'the index is parsed from position %d of the token text (%s)' % (a0['v'], show(subs[0]))
                    else:
                        why = 'matched[] indexed by %s, not through template_token_indices' % show(idx)
                else:
                    why = 'inserted tokens come from %s' % show(src)
                endpos = inss[0][1]
                ok = ok and endpos
        E.check(ok, 'get_replacement: $n', 'appends matched[template_token_indices[n]] with n parsed from the text after "$"', why, W(gr, None, mm.facts))
        insertion_index_range_rule(E, mm)
        cd = cases.get('default')
        okd = False
        if cd is not None:
            pb = [e for s in cd['s'] for e in walk_all_exprs(s) if is_call(e, '::push_back')]
            okd = len(pb) == 1 and strip_casts(strip_copies(pb[0]['args'][0])).get('d') == loopvar['d']
        E.check(okd, 'get_replacement: other tokens', 'result.push_back(cand) unchanged', 'other body tokens are not copied verbatim', W(gr, None, mm.facts))
        ct = cases.get('TEMP_VAL')
        okt = False
        if ct is not None:
            pb = [e for s in ct['s'] for e in walk_all_exprs(s) if is_call(e, '::push_back')]
            okt = len(pb) == 1
        E.check(okt, 'get_replacement: #n', 'one renamed token appended', 'temporary case does not append exactly one token', W(gr, None, mm.facts))
    F = rep.rule('C09.f', 'kind tables agree: text-constrained kinds are {ID, NV_ID, INT}; the five slot kinds of push_rule are the five '
                          'slot kinds of the detector, each mapped to its own non-terminal; constraints compare text', floor=3)
    pr = mm.facts.fn('push_rule')
    ctor = mm.facts.fn('MacroDetector::MacroDetector')
    rep.analysed(pr, ctor)
    constrained, slots = set(), set()
    from .enumeval import EnumEval, Unsupported as EUnsupported
    kinds = [n for n, _ in mm.facts.enum('Theo::Token::Type')['enumerators']]
    # the classified kind: <local copy of the current token>.t  or  es.tokens[es.tok_pos].t
    tokvars = set()
    for st in walk_stmts(pr['body']):
        if st['k'] == 'decl':
            for v in st['vars']:
                if (v.get('cty') or '').replace('const ', '').replace(' &', '') in ('Theo::Token', 'Token') and v.get('init') is not None and 'tok_pos' in show(v['init']):
                    tokvars.add(v['d'])

    def is_subject(x, env):
        if x is None or x.get('k') != 'member' or x.get('name') != 't':
            return False
        b = strip_casts(x['base'])
        return (b.get('k') == 'ref' and b.get('d') in tokvars) or 'tokens[es.tok_pos]' in show(b)
    try:
        tbl = EnumEval(mm.facts, is_subject, lambda c: is_call(c, '::push_back')).table(pr, kinds)
        for K, effs in tbl.items():
            for c in effs:
                t = show(c['obj'])
                if 'content_constraint_token_indices' in t:
                    constrained.add(K)
                if 'template_token_indices' in t:
                    slots.add(K)
    except EUnsupported as ex:
        F.unknown('push_rule: kind tables', 'classification of pattern tokens not evaluated: %s' % ex, W(pr, None, mm.facts))
        constrained, slots = set(), set()
    if not constrained and not slots:
        F.unknown('push_rule: kind tables', 'push_rule does not classify the pattern tokens by their kind: tables not recognised', W(pr, None, mm.facts))
    else:
        extra = sorted(constrained - {'ID', 'NV_ID', 'INT'})
        missing = sorted({'ID', 'NV_ID', 'INT'} - constrained)
        F.check(constrained == {'ID', 'NV_ID', 'INT'}, 'push_rule: text-constrained kinds', 'evaluated for all %d token kinds: %s' % (len(kinds), sorted(constrained)),
                'text-constrained kinds are wrong: %s%s' % (('kinds %s also have to match by text although the scanner gives several spellings one kind; ' % extra[:6]) if extra else '',
                                                            ('kinds %s match any text' % missing) if missing else ''), W(pr, None, mm.facts))
    dslots = {}
    # the detector's table: a lambda of the constructor that maps the kind of a pattern token to a grammar symbol,
    # either by pushing it or by returning it; evaluated for every token kind
    slot_fns = [f for f in mm.facts.functions if f['kind'] == 'lambda' and f.get('parent', '').startswith('MacroDetector::MacroDetector') and f.get('params')]
    # ... or the body of a plain loop over the pattern's tokens (for (const Token &t : md.rule) switch (t.t) ...)
    hosts = [ctor] + [h for h in mm.facts.functions if h.get('body') is not None and h['tmpl'] in ('none', 'inst') and h.get('rec') == 'MacroDetector' and h is not ctor and
                      h['q'].split('::')[-1] not in ('check_constraint', 'detect', 'getErrors')]        # (a helper of the detector that builds the symbol sequence)
    for st in [y for h in hosts if h.get('body') is not None for y in walk_stmts(h['body'])]:
        if st['k'] == 'rangefor' and isinstance(st.get('var'), dict) and 'Token' in (st['var'].get('cty') or '') and st.get('body') is not None:
            slot_fns.append({'kind': 'loop', 'params': [st['var']], 'body': st['body']})
    for f in slot_fns:
        if True:
            tokp = [p2 for p2 in f['params'] if 'Token' in (p2.get('cty') or '')]
            if len(tokp) != 1 or len(f['params']) != 1:
                continue
            pd = tokp[0]['d']
            is_kind_param = 'Type' in tokp[0]['cty']

            def is_subj(x, env, pd=pd, is_kind_param=is_kind_param):
                if x is None:
                    return False
                if is_kind_param:
                    return x.get('k') == 'ref' and x.get('d') == pd
                return x.get('k') == 'member' and x.get('name') == 't' and strip_casts(x['base']).get('k') == 'ref' and strip_casts(x['base']).get('d') == pd
            if not any(st['k'] == 'switch' or st['k'] == 'if' for st in walk_stmts(f['body'])):
                continue
            ee = EnumEval(mm.facts, is_subj, lambda c: is_call(c, '::push_back'))
            try:
                tb = ee.table(f, kinds)
            except EUnsupported:
                continue
            cand = {}
            for K in kinds:
                vals = [show(strip_copies(c['args'][0])) for c in tb[K]] + [show(strip_copies(strip_casts(r))) for r in ee.returned[K]]
                if len(vals) == 1:
                    cand[K] = vals[0]
            # keep the kinds that are not mapped to a terminal built from the kind itself
            subj_txt = (tokp[0].get('name') or 't') + ('' if is_kind_param else '.t')
            nt = {K: v for K, v in cand.items() if 'term(' not in v and subj_txt not in v}
            if len(cand) == len(kinds) and nt:
                dslots = nt
    okslots = set(dslots) == slots and len(slots) == 5 and len(set(dslots.values())) == 5
    if not dslots or not slots:
        F.unknown('slot kinds', 'slot table of %s not recognised' % ('the detector' if not dslots else 'push_rule'), W(ctor, None, mm.facts))
    else:
      F.check(okslots, 'slot kinds', '%s -> %s' % (sorted(slots), dslots), 'push_rule slots %s vs detector slots %s' % (sorted(slots), dslots), W(ctor, None, mm.facts))
    cc = mm.facts.fn('MacroDetector::check_constraint')
    bodies = [cc['body']] + [f['body'] for f in mm.facts.functions if f['kind'] == 'lambda' and f.get('parent', '').startswith('MacroDetector::check_constraint')]
    cmpx = [e for b in bodies for e in walk_all_exprs(b) if e.get('k') in ('bin', 'call') and e.get('op') in ('!=', '==') and 'text' in show(e)]
    okcc = False
    for e in cmpx:
        s = show(e)
        okcc = okcc or s.count('.text') == 2 or s.count('text') >= 2
    # every constrained literal is checked: inside the loop over the constraints only a mismatch may end the function
    for st in walk_stmts(cc['body']):
        if st['k'] in ('rangefor', 'for') and 'content_constraint_token_indices' in show(st.get('range') or st.get('c') or {}):
            early = [x for x in walk_stmts(st['body']) if x['k'] == 'return' and x.get('e') is not None and
                     not (strip_casts(x['e']).get('k') == 'bool' and strip_casts(x['e']).get('v') is False)]
            F.check(not early, 'check_constraint: all constraints', 'inside the loop over the constrained literals only `return false` leaves the function',
                    'the loop over the constrained literals returns %s at line %s: only the first text-constrained literal of a pattern is compared' % (
                        show(early[0]['e'])[:50] if early else '', early[0]['loc'][0] if early else ''), W(cc, early[0] if early else None, mm.facts))
    F.check(okcc, 'check_constraint: compares text', 'found[0].text != requirement.text -> reject', 'constraint no longer compares token text', W(cc, None, mm.facts))
    c09_detector_grammar(rep, mm)
    G = rep.rule('C09.g', 'a detector scans start positions ascending and returns the first accepted, constraint-satisfying match', floor=1)
    detect_rule(G, mm)
    table_columns_rule(G, mm)
    driver_rejects_rule(G, mm)


def insertion_index_range_rule(E, mm):
    """An insertion token $n survives extraction only if 0 <= n < number of slots: the rejecting condition in extract_macros (or a
    helper) is evaluated for n in {-1, 0, size-1, size, size+1} with a sample size; it must reject exactly -1, size, size+1."""
    SIZE = 3
    site = None
    for f in mm.facts.functions:
        if f.get('body') is None or not f['file'].endswith('macro.cpp') or f['tmpl'] == 'pattern' or f['q'] in ('get_replacement',):
            continue
        for e in walk_all_exprs(f['body']):
            if (e.get('k') == 'call' and ((e.get('callee') or '').endswith('::push_back') or (e.get('callee') or '') == 'error')) and 'RANGE' in show(e) and \
                    'does not reference' in show(e):
                site = (f, e)
    if site is None:
        E.unknown('extract_macros: $n range', 'the check of insertion indices against the number of slots was not found')
        return
    f, e = site
    g = mm.M.cfg(f)
    def about_range(c):
        t = show(c)
        if 'template_token_indices' in t:
            return True
        for x in walk_expr(c):
            if x.get('k') == 'ref' and x.get('dk') == 'var':
                o = mm.M.origin(f, x)
                if o is not None and o is not x and 'template_token_indices' in show(o):
                    return True
            if x.get('k') == 'call' and x.get('callee_in_repo') and x.get('obj') is None:
                h = mm.facts.fn(x.get('callee'), optional=True)
                if h is not None and h.get('body') is not None and any('template_token_indices' in show(y) for y in walk_all_exprs(h['body'])):
                    return True
        return False
    guards = [(c, l) for c, l, cn in g.guards_of(g.ev(e)) if isinstance(l, bool) and about_range(c)]
    guard_nodes = [(cn.id if hasattr(cn, 'id') else cn, l) for c, l, cn in g.guards_of(g.ev(e)) if isinstance(l, bool) and about_range(c)]
    if not guards:
        E.unknown('extract_macros: $n range', 'the rejecting condition does not mention the number of slots')
        return

    class Unk(Exception):
        pass

    def val(x, n, env=None, fn=None):
        env = env or {}
        fn = fn or f
        x = strip_casts(x)
        k = x.get('k')
        if k == 'paren':
            return val(x['e'], n, env, fn)
        if k == 'ref' and x.get('d') in env:
            if env[x['d']] is None:
                raise Unk(show(x))
            return env[x['d']]
        if k == 'call' and x.get('callee_in_repo') and x.get('obj') is None and 'strToInt' not in (x.get('callee') or ''):
            h = mm.facts.fn(x.get('callee'), optional=True)
            if h is not None and h.get('body') is not None:
                rets = [y for y in walk_stmts(h['body']) if y['k'] == 'return' and y.get('e') is not None]
                others = [y for y in walk_stmts(h['body']) if y['k'] not in ('return', 'block')]
                if len(rets) == 1 and not others:
                    env2 = {}
                    for p, a in zip(h['params'], x['args']):
                        try:
                            env2[p['d']] = val(a, n, env, fn)
                        except Unk:
                            env2[p['d']] = None
                    return val(rets[0]['e'], n, env2, h)
        if k == 'int':
            return x['v']
        if k == 'bool':
            return bool(x['v'])
        if is_call(x, '::size') and 'template_token_indices' in show(x['obj']):
            return SIZE
        if k == 'ref' and x.get('dk') == 'var':
            o = mm.M.origin(fn, x)
            if o is not None and o is not x and o.get('k') == 'call' and 'strToInt' in (o.get('callee') or ''):
                return n
            if o is not None and o is not x:
                return val(o, n, env, fn)
            raise Unk(show(x))
        if k == 'call' and 'strToInt' in (x.get('callee') or ''):
            return n
        if k == 'un' and x['op'] == '!':
            return not val(x['e'], n, env, fn)
        if k == 'un' and x['op'] == '-':
            return -val(x['e'], n, env, fn)
        if k == 'bin':
            if x['op'] == '||':
                return bool(val(x['l'], n, env, fn)) or bool(val(x['r'], n, env, fn))
            if x['op'] == '&&':
                return bool(val(x['l'], n, env, fn)) and bool(val(x['r'], n, env, fn))
            a, b = val(x['l'], n, env, fn), val(x['r'], n, env, fn)
            import operator as _o
            ops = {'<': _o.lt, '>': _o.gt, '<=': _o.le, '>=': _o.ge, '==': _o.eq, '!=': _o.ne, '+': _o.add, '-': _o.sub}
            if x['op'] in ops:
                return ops[x['op']](a, b)
        raise Unk(show(x))
    try:
        rejected = []
        for n in (-1, 0, SIZE - 1, SIZE, SIZE + 1):
            rej = all(bool(val(c, n)) == l for c, l in guards)
            rejected.append((n, rej))
    except Unk as ex:
        E.unknown('extract_macros: $n range', 'cannot evaluate the range test (%s)' % ex)
        return
    want = {-1: True, 0: False, SIZE - 1: False, SIZE: True, SIZE + 1: True}
    bad = [(n, r) for n, r in rejected if want[n] != r]
    names = {-1: '-1', 0: '0', SIZE - 1: 'slots-1', SIZE: 'slots', SIZE + 1: 'slots+1'}
    E.check(not bad, 'extract_macros: $n range', 'an insertion index n is rejected exactly when n < 0 or n >= number of slots (evaluated for -1, 0, slots-1, slots, slots+1)',
            '; '.join('$n with n = %s is %s' % (names[n], 'rejected although it names a slot' if r else 'accepted although no such slot exists: get_replacement indexes template_token_indices out of bounds') for n, r in bad),
            W(f, e, mm.facts), witness={'macro': 'DEFINE answer AS $0 END DEFINE  x0 := answer'} if bad else None)
    # a rejected $n is also taken out of the stored definition (macros are applied even when extraction reported errors):
    # the assignments that neutralise the token must reach the stored token, not a copy that is dropped
    gset = guard_nodes
    repairs = []
    for x in walk_all_exprs(f['body']):
        tgt = None
        if x.get('k') == 'assign':
            tgt = x['l']
        elif x.get('k') == 'call' and (x.get('callee') or '').endswith('::operator=') and x.get('obj') is not None:
            tgt = x['obj']
        if tgt is None:
            continue
        root, path = field_chain(tgt)
        root = strip_casts(root) if root is not None else None
        if root is None or root.get('k') != 'ref' or root.get('dk') != 'var' or not path or path[-1] not in ('t', 'text'):
            continue
        try:
            xe = g.ev(x)
        except AnalysisBroken:
            continue
        gs_ = [(cn.id if hasattr(cn, 'id') else cn, l) for c, l, cn in g.guards_of(xe)]
        if all(z in gs_ for z in gset):
            repairs.append((x, xe, root))
    for x, xe, root in repairs:
        decl = None
        for st in walk_stmts(f['body']):
            if st['k'] == 'rangefor' and st['var']['d'] == root['d']:
                decl = st['var']
            if st['k'] == 'decl':
                for v in st['vars']:
                    if v['d'] == root['d']:
                        decl = v
        if decl is None:
            continue
        inst = 'extract_macros: rejected $n neutralised (%s)' % show(x)[:40]
        if decl.get('is_ref') and not decl.get('const'):
            # a reference - into what?  follow the loops it iterates: every level has to be a reference as well, otherwise the
            # token that is repaired lives in a copy of the definition
            copy_level = None
            cur = root['d']
            for _ in range(4):
                lp_ = [st for st in walk_stmts(f['body']) if st['k'] == 'rangefor' and st['var']['d'] == cur]
                if not lp_:
                    break
                rr, _p = field_chain(lp_[0]['range'])
                rr = strip_casts(rr) if rr is not None else None
                if rr is None or rr.get('k') != 'ref' or rr.get('dk') != 'var':
                    break
                outer = [st for st in walk_stmts(f['body']) if st['k'] == 'rangefor' and st['var']['d'] == rr.get('d')]
                if outer and not outer[0]['var'].get('is_ref'):
                    copy_level = outer[0]['var']
                    break
                cur = rr.get('d')
            if copy_level is not None:
                E.violation(inst, '%s refers into %s, which is a by-value copy of the stored definition (the loop variable is declared without &): the rejected $n stays in the stored '
                            'macro body, and get_replacement indexes template_token_indices with it when the macro is used' % (root['name'], copy_level['name']), W(f, x, mm.facts),
                            witness={'macro': 'DEFINE answer AS $7 END DEFINE  x0 := answer'})
                continue
            E.ok(inst, '%s is a reference to the stored token' % root['name'], W(f, x, mm.facts))
            continue
        # a by-value loop variable is a fresh copy in every iteration: only uses later in the same iteration count
        is_loopvar = any(st['k'] == 'rangefor' and st['var']['d'] == root['d'] for st in walk_stmts(f['body']))
        later = [ev2 for ev2 in g.events if ev2.e.get('k') == 'ref' and ev2.e.get('d') == root['d'] and g.can_follow(xe, ev2) and
                 not any(ev2.e is y for r2 in repairs for y in walk_expr(r2[0])) and
                 (not is_loopvar or tuple(ev2.e.get('loc') or (0, 0))[:2] > tuple(x.get('loc') or (0, 0))[:2])]
        if not later:
            E.violation(inst, '%s is a copy of the stored token (declared by value) and is not used after the assignment: the rejected $n stays in the macro body, and '
                        'get_replacement indexes template_token_indices with it when the macro is used' % root['name'], W(f, x, mm.facts),
                        witness={'macro': 'DEFINE answer AS $7 END DEFINE  x0 := answer'})
        else:
            E.unknown(inst, '%s is a copy that is used afterwards: cannot see whether the neutralised token is stored back' % root['name'], W(f, x, mm.facts))


def table_columns_rule(G, mm):
    """The action table of a detector has max_used_terminal + 1 columns and the driver rejects when the look-ahead's kind has no column.
    Every token kind that can stand behind a macro use therefore has to be no larger than the largest terminal of the slot grammar."""
    try:
        prods = detector_grammar(mm)
    except AnalysisBroken as ex:
        G.unknown('detector tables: columns', str(ex))
        return
    en = mm.facts.enum('Theo::Token::Type')
    vals = dict(en['enumerators'])
    terms = set(x for alts in prods.values() for alt in alts for x in alt if x in vals)
    if not terms or any(v is None for v in vals.values()):
        G.unknown('detector tables: columns', 'terminals of the slot grammar / enumerator values not resolved')
        return
    width = max(vals[t] for t in terms)
    beyond = sorted((v, k) for k, v in vals.items() if v > width and k not in ('UNKNOWN',))
    G.check(not beyond, 'detector tables: a column for every token kind', 'the largest terminal of the slot grammar (%s = %d) is the largest token kind except UNKNOWN' % (
        max(terms, key=lambda t: vals[t]), width),
        'token kind(s) %s have values above the largest terminal of the slot grammar (%d): the action table has no column for them and the driver rejects - a macro use '
        'that is followed by such a token is not recognised' % ([k for v, k in beyond][:6], width), W(mm.facts.fn('MacroDetector::MacroDetector'), None, mm.facts),
        witness={'input': 'a macro use directly followed by %s' % beyond[0][1]} if beyond else None)


def driver_rejects_rule(G, mm):
    """The table-driven parser gives up only where the tables say so: a REJECT result is returned under `the look-ahead has no column`
    or in the arm of the empty cell (default / ERR) - not depending on how much input was read or how deep the stacks are."""
    drv = [f for f in mm.facts.functions if f['q'].endswith('::parse') and 'LRParser' in f['q'] and f['tmpl'] == 'inst' and f.get('body') is not None]
    if not drv:
        G.unknown('LR driver: reasons to reject', 'no instantiation of LRParser::parse in macro.cpp')
        return
    for f in drv[:1]:
        g = mm.M.cfg(f)
        n = 0
        for st in walk_stmts(f['body']):
            if st['k'] != 'return' or st.get('e') is None:
                continue
            names = [x.get('name') for x in walk_expr(st['e']) if x.get('k') == 'ref' and x.get('dk') == 'enumerator']
            if 'REJECT' not in names:
                continue
            n += 1
            top = strip_casts(st['e'])
            ev_ = g.by_sid.get(top.get('sid')) or next((g.by_sid[x.get('sid')] for x in walk_expr(st['e']) if x.get('sid') in g.by_sid), None)
            if ev_ is None:
                G.unknown('LR driver: reasons to reject', 'a REJECT result is not in the flow graph')
                continue
            why = None
            for c, lab, cn in g.guards_of(ev_):
                txt = show(c)
                if isinstance(lab, tuple) and lab[0] == 'case':
                    if set(lab[1]) & {'SHIFT', 'REDUCE', 'ACCEPT'}:
                        why = why or 'in the %s arm' % '/'.join(str(x) for x in lab[1])
                    continue
                if isinstance(lab, bool):
                    if getattr(cn, 'stmt', None) is not None and cn.stmt.get('k') in ('while', 'for', 'do', 'rangefor'):
                        continue        # the condition of the driver loop itself (for (;;), while (true))
                    c0 = strip_casts(c)
                    if c0 is not None and c0.get('k') == 'bin' and c0.get('op') in ('==', '!='):
                        ens = [x.get('name') for x in walk_expr(c0) if x.get('k') == 'ref' and x.get('dk') == 'enumerator']
                        if len(ens) == 1 and ens[0] in ('SHIFT', 'REDUCE', 'ACCEPT', 'ERR'):
                            # the kind of the cell, tested by an if-chain instead of a switch
                            is_kind = (c0['op'] == '==') == lab
                            if (ens[0] == 'ERR') == is_kind:
                                continue            # "the cell is empty" / "the cell is not a SHIFT (REDUCE, ACCEPT)"
                            why = 'in the %s arm' % ens[0]
                            continue
                    if 'action' in txt and 'size()' in txt:
                        continue        # the column test
                    if 'end()' in txt and ('ip' in txt or 'begin' in txt or '==' in txt) and 'size()' not in txt:
                        continue        # input exhausted
                    why = 'when (%s) is %s' % (txt[:80], str(lab).lower())
            G.check(why is None, 'LR driver: REJECT at line %d' % st['loc'][0], 'returned for a look-ahead without a column or an empty cell only',
                    'the driver also rejects %s: input that the tables accept is refused depending on something else than the tables (a slot content '
                    'that is long or deeply nested is not matched, the leftmost step is skipped)' % why, W(f, st, mm.facts))
        if n == 0:
            G.unknown('LR driver: reasons to reject', 'no REJECT result found in LRParser::parse')


def detect_rule(G, mm):
    """detect(): one loop over all start positions 0, 1, ... size-1 in ascending order; each position is parsed from there; the
    first position whose parse is ACCEPTed and whose text constraints hold is returned with that position as location."""
    det = mm.facts.fn('MacroDetector::detect')
    g = mm.M.cfg(det)
    where = W(det, None, mm.facts)
    inp = det['params'][0] if det['params'] else None
    loops = [st for st in walk_stmts(det['body']) if st['k'] in ('for', 'while', 'do', 'rangefor') and any(is_call(e, '::parse') for e in walk_all_exprs(st.get('body')))]
    helper = None
    if not loops:
        # the per-position work may live in a member helper called with the position: detect() keeps the scan loop
        for st in walk_stmts(det['body']):
            if st['k'] != 'for':
                continue
            cv0 = counter_of(st)
            for e in walk_all_exprs(st['body']):
                if e.get('k') == 'call' and e.get('callee_in_repo') and (e.get('callee') or '').startswith('MacroDetector::') and cv0 is not None:
                    h = mm.facts.fn(e.get('callee'), optional=True)
                    idx = [i for i, a in enumerate(e['args']) if strip_casts(a).get('d') == cv0['d']]
                    if h is not None and h.get('body') is not None and idx and any(is_call(x, '::parse') for x in walk_all_exprs(h['body'])):
                        helper = (h, h['params'][idx[0]], e, st)
        if helper:
            loops = [helper[3]]
    if len(loops) != 1 or loops[0]['k'] != 'for' or inp is None:
        G.unknown('detect: leftmost', 'the scan over the start positions is not a single counting loop around the parse call')
        return
    L = loops[0]
    cv = counter_of(L)
    if cv is None:
        G.unknown('detect: leftmost', 'loop counter not recognised')
        return
    why, unk = [], []
    # where the position is parsed and a match is built: detect() itself, or the helper with its position parameter
    bfn, bg, posd = det, g, cv['d']
    if helper:
        bfn, posd = helper[0], helper[1]['d']
        bg = mm.M.cfg(bfn)
    i0 = strip_casts(cv.get('init'))
    if i0 is not None and i0.get('k') == 'int':
        if i0['v'] != 0:
            why.append('the scan starts at position %d: a match at an earlier position is never found' % i0['v'])
    else:
        unk.append('initial position %s' % show(cv.get('init')))

    def is_size(e, depth=0):
        e = strip_casts(e)
        if e is None or depth > 4:
            return None
        if e.get('k') == 'paren':
            return is_size(e['e'], depth)
        if is_call(e, '::size') and strip_casts(e['obj']).get('d') == inp['d']:
            return 'size'
        if e.get('k') == 'ref' and e.get('dk') == 'var':
            o = mm.M.origin(det, e)
            return is_size(o, depth + 1) if o is not e else None
        if e.get('k') == 'bin' and e['op'] == '-' and is_size(e['l'], depth + 1) == 'size' and strip_casts(e['r']).get('k') == 'int' and strip_casts(e['r'])['v'] > 0:
            return 'short'
        if e.get('k') == 'call' and (e.get('callee') or '').split('<')[0] in ('std::min',) and any(is_size(a, depth + 1) == 'size' for a in e.get('args', [])):
            return 'short'
        if e.get('k') == 'cond' and any(is_size(a, depth + 1) == 'size' for a in (e['t'], e['e'])):
            return 'short'       # min(size, something): the scan can stop early
        return None
    c = strip_casts(L.get('c'))
    if c is not None and c.get('k') == 'bin' and strip_casts(c['l']).get('d') == cv['d'] and c['op'] in ('<', '!=', '<='):
        kind = is_size(c['r'])
        if kind == 'size' and c['op'] in ('<', '!='):
            pass
        elif kind == 'short' or (kind == 'size' and False):
            why.append('the scan stops before the last start positions (%s): a match further right is never found although no match lies to its left' % show(c))
        else:
            unk.append('loop bound %s' % show(c))
    else:
        # any other arithmetic condition over the counter, the number of input tokens N and the number of pattern symbols K is
        # evaluated: every start position at which K tokens still fit (N - i >= K; a match needs a token per pattern symbol, the slot
        # grammar has no empty derivations) has to be tried, for N in 3..7 and K in 1..3
        class _NoEval(Exception):
            pass

        def cval(e, i_, N_, K_, depth=0):
            e = strip_casts(e)
            if e is None or depth > 8:
                raise _NoEval('?')
            k_ = e.get('k')
            if k_ == 'paren':
                return cval(e['e'], i_, N_, K_, depth)
            if k_ == 'int':
                return e['v']
            if k_ == 'ref' and e.get('d') == cv['d']:
                return i_
            if is_call(e, '::size') and e.get('obj') is not None:
                o_ = strip_casts(e['obj'])
                if o_.get('d') == inp['d']:
                    return N_
                if show(o_).replace('this->', '').endswith('md.rule'):
                    return K_
                raise _NoEval(show(e))
            if k_ == 'ref' and e.get('dk') == 'var':
                o_ = mm.M.origin(det, e)
                if o_ is not None and o_ is not e:
                    return cval(o_, i_, N_, K_, depth + 1)
                raise _NoEval(show(e))
            if k_ == 'cond':
                return cval(e['t'], i_, N_, K_, depth + 1) if cval(e['c'], i_, N_, K_, depth + 1) else cval(e.get('f') if e.get('f') is not None else e['e'], i_, N_, K_, depth + 1)
            if is_call(e, '::empty') and e.get('obj') is not None and strip_casts(e['obj']).get('d') == inp['d']:
                return N_ == 0
            if k_ == 'un' and e['op'] == '!':
                return not cval(e['e'], i_, N_, K_, depth + 1)
            if k_ == 'bin' and e['op'] in ('+', '-', '*', '<', '<=', '>', '>=', '==', '!=', '&&', '||'):
                a_, b_ = cval(e['l'], i_, N_, K_, depth + 1), cval(e['r'], i_, N_, K_, depth + 1)
                import operator as _o
                return {'+': _o.add, '-': _o.sub, '*': _o.mul, '<': _o.lt, '<=': _o.le, '>': _o.gt, '>=': _o.ge, '==': _o.eq, '!=': _o.ne,
                        '&&': lambda x, y: bool(x) and bool(y), '||': lambda x, y: bool(x) or bool(y)}[e['op']](a_, b_)
            raise _NoEval(show(e)[:40])
        try:
            missed = None
            for N_ in range(3, 8):
                for K_ in range(1, 4):
                    i_ = 0
                    tried = set()
                    while i_ <= N_ + 1 and cval(c, i_, N_, K_):
                        tried.add(i_)
                        i_ += 1
                    need = [j for j in range(N_) if N_ - j >= K_]
                    for j in need:
                        if j not in tried and missed is None:
                            missed = (N_, K_, j)
            if missed:
                why.append('the scan does not try every start position: with %d input tokens and a pattern of %d symbols position %d is never tried (condition %s) although the pattern fits '
                           'there - a macro use at the end of the text stays unexpanded' % (missed[0], missed[1], missed[2], show(c)))
        except _NoEval as ex:
            unk.append('loop condition %s (%s)' % (show(c) if c else None, ex))
    inc = strip_casts(L.get('inc')) if L.get('inc') else None
    if inc is not None and inc.get('k') == 'un' and inc['op'] == '++' and strip_casts(inc['e']).get('d') == cv['d']:
        pass
    elif inc is not None and inc.get('k') == 'assign' and inc['op'] == '+=' and strip_casts(inc['l']).get('d') == cv['d'] and strip_casts(inc['r']).get('k') == 'int':
        if strip_casts(inc['r'])['v'] != 1:
            why.append('the scan advances by %d: start positions are skipped' % strip_casts(inc['r'])['v'])
    elif inc is not None and inc.get('k') == 'un' and inc['op'] == '--':
        why.append('the scan runs from right to left: the rightmost match is returned')
    else:
        unk.append('loop increment %s' % (show(inc) if inc else None))
    # the counter is not moved inside the body
    for e in walk_all_exprs(L['body']):
        tgt = None
        if e.get('k') == 'assign':
            tgt = strip_casts(e['l'])
        elif e.get('k') == 'un' and e['op'] in ('++', '--'):
            tgt = strip_casts(e['e'])
        if tgt is not None and tgt.get('k') == 'ref' and tgt.get('d') == cv['d']:
            why.append('the position counter is changed inside the loop body (%s): start positions are skipped' % show(e)[:50])
    # parse from begin() + counter
    pc = [e for e in walk_all_exprs(bfn['body'] if helper else L['body']) if is_call(e, '::parse')]
    # every start position is handed to the parser: a test in front of the parse that skips positions by comparing the TEXT of the
    # input token with the text of a pattern token is wrong for every kind that matches by kind only (keywords in another spelling)
    if pc and pc[0].get('sid') in bg.by_sid:
        for cond, label, cn in bg.guards_of(bg.by_sid[pc[0]['sid']]):
            if getattr(cn, 'stmt', None) is L:
                continue
            ctext = show(bg.expanded(cond)) if hasattr(bg, 'expanded') else show(cond)
            if '.text' in ctext and 'rule' in ctext:
                why.append('positions are skipped without parsing when the text of the input token differs from the text of the first pattern token (%s): literal pattern tokens other than '
                           'identifiers, integers and operator characters match by kind, so a keyword written in another of its spellings is no longer recognised' % show(cond)[:80])
            elif ('.t' in ctext or 'rule' in ctext) and not any(is_call(x, '::parse') for x in walk_expr(cond)):
                unk.append('a test in front of the parse skips start positions (%s)' % show(cond)[:60])
    from_pos = False
    for x in walk_expr(pc[0]):
        if x.get('k') in ('bin', 'call') and x.get('op') == '+':
            parts = [x['l'], x['r']] if x['k'] == 'bin' else ([x['obj']] if x.get('obj') is not None else []) + list(x['args'])
            if any(is_call(strip_conv(p_), '::begin') for p_ in parts) and any(strip_casts(p_).get('d') == posd for p_ in parts):
                from_pos = True
    if not from_pos:
        # begin() + x with x computed from the counter
        desc = False
        for x in walk_expr(pc[0]):
            if x.get('k') in ('bin', 'call') and x.get('op') == '+':
                parts = [x['l'], x['r']] if x['k'] == 'bin' else ([x['obj']] if x.get('obj') is not None else []) + list(x['args'])
                if any(is_call(strip_conv(p_), '::begin') for p_ in parts):
                    for p_ in parts:
                        o = mm.M.origin(bfn, p_)
                        for y in walk_expr(o) if o is not None else []:
                            if y.get('k') == 'bin' and y['op'] == '-' and any(z.get('k') == 'ref' and z.get('d') == posd for z in walk_expr(y['r'])):
                                desc = True
        if desc:
            why.append('the start position decreases as the loop counter grows: the scan runs from right to left and the rightmost match is returned')
        else:
            unk.append('start of the parsed range %s' % show(pc[0])[:70])
    # returns inside the loop
    rets = [n for n in bg.returns() if helper or any(x is n.stmt for x in walk_stmts(L['body']))]
    hits = [n for n in rets if n.stmt.get('e') is not None and 'nullopt' not in show(n.stmt['e'])]
    if len(hits) != 1:
        unk.append('%d returns of a match inside the loop' % len(hits))
    else:
        n = hits[0]
        ev = n.events[0] if n.events else None
        guards = bg.guards_of(ev) if ev is not None else []

        def is_accept(c2):
            return c2.get('k') in ('bin', 'call') and c2.get('op') == '==' and 'ACCEPT' in show(c2)

        def is_constraint(c2):
            return c2.get('k') == 'call' and (c2.get('callee') or '').endswith('check_constraint')
        acc = any(isinstance(l, bool) and guard_implies(c2, l, is_accept, True) for c2, l, cn in guards) or \
            any(isinstance(l, bool) and guard_implies(c2, l, lambda z: z.get('k') in ('bin', 'call') and z.get('op') == '!=' and 'ACCEPT' in show(z), False) for c2, l, cn in guards)
        con = any(isinstance(l, bool) and guard_implies(c2, l, is_constraint, True) for c2, l, cn in guards)
        if not acc:
            why.append('a match is returned without the parse having ACCEPTed')
        if not con:
            why.append('a match is returned without its text constraints having been checked')
        # location = the counter
        loc_ok = False
        for x in walk_expr(n.stmt['e']):
            if x.get('k') == 'init' and x.get('fields'):
                first = strip_casts(x['fields'][0][1]) if isinstance(x['fields'][0], (list, tuple)) else None
                if first is not None and first.get('d') == posd:
                    loc_ok = True
            if x.get('k') == 'init' and x.get('elems'):
                first = strip_casts(x['elems'][0])
                if first is not None and first.get('d') == posd:
                    loc_ok = True
            if x.get('k') == 'construct' and (x.get('rec') or '').endswith('Response') and x.get('args'):
                # Response(location, length, matched) with a constructor that stores its arguments unchanged
                from .genrules import as_record_init
                ri = as_record_init(mm.facts, x)
                lv = dict((a_, b_) for a_, b_ in ri['fields']).get('location') if ri is not None else None
                if lv is not None and strip_casts(lv).get('d') == posd:
                    loc_ok = True
        if not loc_ok:
            unk.append('location of the returned match')
    if helper:
        # detect() returns the helper's answer only when it is a match
        okret = False
        for st in walk_stmts(L['body']):
            if st['k'] == 'if' and any(x['k'] == 'return' for x in walk_stmts(st['t'])):
                v = st.get('var')
                ctext = show(st['c']) if st.get('c') is not None else ''
                if v is not None and v.get('init') is not None and any(x is helper[2] for x in walk_expr(v['init'])):
                    okret = all(strip_casts(strip_copies(x['e'])).get('d') == v['d'] for x in walk_stmts(st['t']) if x['k'] == 'return' and x.get('e') is not None)
                elif 'has_value' in ctext or any(x is helper[2] for x in walk_expr(st['c'] or {})):
                    okret = True
        unguarded = [x for x in walk_stmts(L['body']) if x['k'] == 'return' and x.get('e') is not None and
                     not any(st2['k'] == 'if' and any(y is x for y in walk_stmts(st2['t'])) for st2 in walk_stmts(L['body']))]
        if unguarded:
            why.append('detect() returns the answer for the first start position whether or not it is a match (line %s)' % unguarded[0]['loc'][0])
        elif not okret:
            unk.append('how detect() hands on the helper\'s match')
    # leaving the loop early without a match
    brk = [x for x in walk_stmts(L['body']) if x['k'] == 'break']
    if brk:
        why.append('the scan is abandoned at line %s before all start positions were tried' % brk[0]['loc'][0])
    if why:
        G.violation('detect: leftmost', '; '.join(dict.fromkeys(why)), where)
    elif unk:
        G.unknown('detect: leftmost', 'not recognised: ' + '; '.join(unk))
    else:
        G.ok('detect: leftmost', 'positions 0..size-1 ascending by 1, parsed from begin()+i, first ACCEPT && constraint returned with location i', where)


# ============================================================================= C12
def c12(rep, tier):
    mm = MacroModel()
    rep.note_facts(mm.facts)
    am = mm.am
    A = rep.rule('C12.a', 'a detector reports MACRO_COMPILE_NON_LR at its first pattern token exactly when table generation reported a conflict', floor=1)
    non_lr_error_rule(mm, rep, A)
    pattern_verdicts_rule(rep, mm, tier)
    application_unconditional_rule(rep, mm)
    G2 = rep.rule('C12.g', 'on every path through the detector\'s constructor the conflict list is the result of generating the tables of the parser '
                           'the detector then uses (no path installs a parser without its verdict)', floor=1)
    ctor = mm.facts.fn('MacroDetector::MacroDetector')
    rep.analysed(ctor)
    gc = mm.M.cfg(ctor)
    gens = []
    for ev in gc.events:
        e = ev.e
        tgt = val = None
        if e.get('k') == 'call' and (e.get('callee') or '').endswith('::operator=') and e.get('obj') is not None and e.get('args'):
            tgt, val = strip_casts(e['obj']), strip_conv(e['args'][0])
        elif e.get('k') == 'assign':
            tgt, val = strip_casts(e['l']), strip_conv(e['r'])
        if tgt is not None and tgt.get('k') == 'member' and tgt.get('name') == 'gen_res' and is_call(val, '::generateParseTables'):
            gens.append((ev, val))
    if len(gens) != 1:
        G2.unknown('MacroDetector: verdict', '%d assignment(s) gen_res = <parser>.generateParseTables() found in the constructor' % len(gens))
    else:
        ev, val = gens[0]
        pobj = show(strip_casts(val['obj'])).replace('this->', '')
        parser_writes = [w for w in gc.events if ((w.e.get('k') == 'call' and (w.e.get('callee') or '').endswith('::operator=') and w.e.get('obj') is not None and
                                                   show(strip_casts(w.e['obj'])).replace('this->', '') == pobj) or
                                                  (w.e.get('k') == 'assign' and show(strip_casts(w.e['l'])).replace('this->', '') == pobj))]
        late = [w for w in parser_writes if gc.can_follow(ev, w) and not gc.dominates(w, ev)]
        other_gen_writes = [w for w in gc.events if w is not ev and 'gen_res' in show(w.e.get('obj') or w.e.get('l') or {}) and
                            ((w.e.get('k') == 'call' and (w.e.get('callee') or '').split('::')[-1] in ('operator=', 'push_back', 'insert', 'assign', 'swap')) or w.e.get('k') == 'assign')]
        if (ev.conditional or not gc.on_all_paths(ev)) and other_gen_writes:
            G2.unknown('MacroDetector: verdict', 'the conflict list is also written at line %s: paths that skip table generation may still carry a verdict' % other_gen_writes[0].e['loc'][0])
        elif ev.conditional or not gc.on_all_paths(ev):
            rets = [n for n in gc.returns() if ev.node.id not in gc.dom[n.id]]
            G2.violation('MacroDetector: verdict', 'a path through the constructor (return at line %s) never generates the tables: the conflict list stays empty and the '
                         'detector counts as deterministic whatever its pattern' % (rets[0].stmt['loc'][0] if rets and rets[0].stmt.get('loc') else '?'), W(ctor, rets[0].stmt if rets else None, mm.facts))
        elif late:
            G2.violation('MacroDetector: verdict', 'the parser is replaced after its tables were generated (line %s): the verdict belongs to another parser' % late[0].e['loc'][0], W(ctor, late[0].e, mm.facts))
        else:
            G2.ok('MacroDetector: verdict', 'gen_res = %s.generateParseTables() on every path; %s is not replaced afterwards' % (pobj, pobj), W(ctor, ev.e, mm.facts))
    B = rep.rule('C12.b', 'only detectors without error reach the priority bins', floor=1)
    gam = mm.M.cfg(am)
    pname = prios_name(am)

    accumulated = []
    loop_local_decls, grown_in_loops = set(), set()
    for st_l in walk_stmts(am['body']):
        if st_l['k'] in ('rangefor', 'for', 'while', 'do'):
            for st_i in walk_stmts(st_l.get('body')):
                if st_i['k'] == 'decl':
                    loop_local_decls.update(v_.get('d') for v_ in st_i['vars'])
            for x_ in walk_all_exprs(st_l.get('body')):
                if (is_call(x_, '::insert') or is_call(x_, '::push_back') or is_call(x_, '::emplace_back')) and x_.get('obj') is not None:
                    o_ = strip_casts(x_['obj'])
                    if o_.get('k') == 'ref' and o_.get('dk') == 'var':
                        grown_in_loops.add(o_.get('d'))

    def no_conflict(c, depth=0):
        """+1: c is true iff the detector has no conflict error; -1: true iff it has one; None: unrelated/unknown"""
        c = strip_casts(c)
        if c is None or depth > 5:
            return None
        if c.get('k') == 'paren':
            return no_conflict(c['e'], depth)
        if c.get('k') == 'un' and c['op'] == '!':
            v = no_conflict(c['e'], depth)
            return None if v is None else -v
        t = show(c).replace(' ', '').lower()
        about = 'err' in t or 'gen_res' in t
        # which list is tested?  this detector's own errors - or the list that accumulates the errors of all detectors
        for x in walk_expr(c):
            if (is_call(x, '::empty') or is_call(x, '::size')) and x.get('obj') is not None:
                o = strip_casts(x['obj'])
                if o.get('k') == 'member' and o.get('name') == 'errors' and 'MacroApplicationResult' in (strip_casts(o['base']).get('cty') or ''):
                    accumulated.append(c)
                    return None
                # ... or a local error list that lives across the iterations of the collecting loop and is extended inside it (seed C12k-1)
                if o.get('k') == 'ref' and o.get('dk') == 'var' and 'ParseError' in (o.get('cty') or '') and o.get('d') not in loop_local_decls \
                        and o.get('d') in grown_in_loops:
                    accumulated.append(c)
                    return None
        if is_call(c, '::empty') and about:
            return 1
        if c.get('k') == 'bin' and c['op'] in ('==', '!=', '>', '<', '>=', '<=') and 'size()' in t and about:
            l, r = strip_casts(c['l']), strip_casts(c['r'])
            if is_call(l, '::size') and r.get('k') == 'int':
                op, v = c['op'], r['v']
            elif is_call(r, '::size') and l.get('k') == 'int':
                op, v = {'<': '>', '>': '<', '<=': '>=', '>=': '<=', '==': '==', '!=': '!='}[c['op']], l['v']
            else:
                return None
            if (op, v) in (('==', 0), ('<', 1), ('<=', 0)):
                return 1
            if (op, v) in (('>', 0), ('!=', 0), ('>=', 1)):
                return -1
            return None
        if c.get('k') == 'call' and c.get('obj') is not None and 'MacroDetector' in (strip_casts(c['obj']).get('cty') or '') and not c.get('args'):
            g = mm.facts.fn(c.get('callee'), optional=True)
            if g is not None and g.get('body') is not None:
                rets = [x for x in walk_stmts(g['body']) if x['k'] == 'return' and x.get('e') is not None]
                others = [x for x in walk_stmts(g['body']) if x['k'] not in ('return', 'block')]
                if len(rets) == 1 and not others:
                    return no_conflict(rets[0]['e'], depth + 1)
        return None

    def errors_empty_guard(guards):
        for cond, label, cn in guards:
            if not isinstance(label, bool):
                continue
            v = no_conflict(cond)
            if v is not None and ((v == 1) == label):
                return True
        return False
    lists = {}      # did -> True when every push into that detector list is guarded by "no errors"
    direct_ok = []
    for ev in gam.calls():
        e = ev.e
        if not (is_call(e, '::push_back') or is_call(e, '::emplace_back')) or e.get('obj') is None:
            continue
        if 'MacroDetector' not in (e['obj'].get('cty') or ''):
            continue
        tgt = strip_casts(e['obj'])
        g_ok = errors_empty_guard(gam.guards_of(ev))
        if tgt.get('k') == 'ref' and tgt.get('dk') == 'var':
            lists[tgt['d']] = lists.get(tgt['d'], True) and g_ok
            if g_ok:
                B.ok('apply_macros: %s.push_back' % tgt['name'], 'pushed only under an empty local error list', W(am, e, mm.facts))
        elif pname and pname in show(tgt):
            direct_ok.append(g_ok)
            if g_ok:
                B.ok('apply_macros: %s[...].push_back' % pname, 'a detector enters a priority bin only under an empty local error list', W(am, e, mm.facts))
    # bins filled from a list (std::for_each with a lambda, or a loop whose pushes are not themselves guarded): that list must be a guarded one
    fe = [e for e in walk_all_exprs(am['body']) if e.get('k') == 'call' and (e.get('callee') or '') in ('std::for_each',) and
          any(c.get('name') == (pname or '') for a in e['args'] for x in walk_expr(a) if x.get('k') == 'lambda' for c in x.get('captures', []))]
    srcs = []
    for e in fe:
        a0 = strip_conv(e['args'][0])
        if is_call(a0, '::begin'):
            srcs.append(strip_casts(a0['obj']))
    for ev in gam.calls():
        e = ev.e
        if not ((is_call(e, '::push_back') or is_call(e, '::emplace_back') or is_call(e, '::insert')) and e.get('obj') is not None and pname and pname in show(e['obj'])):
            continue
        if errors_empty_guard(gam.guards_of(ev)):
            continue
        # an unguarded push into a bin: the pushed detector comes from a list, which must be a guarded one
        src = None
        for st in walk_stmts(am['body']):
            if st['k'] == 'rangefor' and 'MacroDetector' in (st['range'].get('cty') or '') and any(x is e for x in walk_all_exprs(st['body'])):
                if any(x.get('k') == 'ref' and x.get('d') == st['var']['d'] for a in e['args'] for x in walk_expr(a)):
                    src = strip_casts(st['range'])
        if src is None:
            for a in e['args']:
                for x in walk_expr(a):
                    if is_call(x, '::operator[]') and 'MacroDetector' in (strip_casts(x['obj']).get('cty') or '') and strip_casts(x['obj']).get('k') == 'ref':
                        src = strip_casts(x['obj'])
        srcs.append(src)
    for src in srcs:
        if src is not None and src.get('k') == 'ref':
            okb = lists.get(src.get('d')) is True
            B.check(okb, 'apply_macros: bins filled from %s' % src.get('name'), 'the priority bins are filled from a list that only receives conflict-free detectors',
                    'the bins are filled from %s, which also holds rejected detectors (rejected macros would be applied)' % src.get('name'), W(am, None, mm.facts))
    # the detectors that are asked for a match are taken from a filtered list or from a bin - never from the list get_detectors() returned
    def decl_init(d_):
        for st_ in walk_stmts(am['body']):
            if st_['k'] == 'decl':
                for v_ in st_['vars']:
                    if v_.get('d') == d_:
                        return v_.get('init')
        return None
    for ev in gam.calls():
        e = ev.e
        if not (is_call(e, '::detect') and e.get('obj') is not None):
            continue
        x = strip_casts(e['obj'])
        cont = None
        if x.get('k') == 'ref' and x.get('dk') == 'var':
            for st_ in walk_stmts(am['body']):
                if st_['k'] == 'rangefor' and isinstance(st_.get('var'), dict) and st_['var'].get('d') == x.get('d'):
                    cont = strip_casts(st_['range'])
        elif is_call(x, '::operator[]') or is_call(x, '::at'):
            cont = strip_casts(x['obj'])
        if cont is None or cont.get('k') != 'ref' or 'MacroDetector' not in (cont.get('cty') or ''):
            continue
        init = decl_init(cont.get('d'))
        unfiltered = lists.get(cont.get('d')) is False or (init is not None and is_call(strip_copies(strip_casts(init)), 'get_detectors') and lists.get(cont.get('d')) is None)
        B.check(not unfiltered, 'apply_macros: %s.detect(..)' % show(x)[:30], 'the detector asked for a match comes from a filtered list or a bin',
                'the detector that is asked for a match is taken from %s, the list of ALL detectors (%s): a macro that was rejected as non-linear is applied all the same, '
                'and with indices computed for the filtered list the wrong macros are applied' % (cont.get('name'), 'the result of get_detectors()' if init is not None else 'it also receives rejected detectors'),
                W(am, e, mm.facts), witness={'macros': 'a rejected macro defined before an accepted one, and a use of both'} if unfiltered else None)
    if accumulated:
        B.violation('apply_macros: usable only when no error so far', 'a detector is kept only when the ACCUMULATED error list (%s) is empty: after the first rejected macro every later '
                    'macro is dropped without an error of its own and is never applied' % show(accumulated[0])[:60], W(am, accumulated[0], mm.facts),
                    witness={'macros': 'a rejected macro defined before an accepted one'})
    if not srcs and not direct_ok:
        B.unknown('apply_macros: bins', 'cannot see how detectors reach the priority bins')
    Cc = rep.rule('C12.c', 'the loop collecting detector errors has no early exit (a rejected macro does not stop the others)', floor=1)
    coll = None
    for st in walk_stmts(am['body']):
        if st['k'] in ('rangefor', 'for', 'while') and coll is None:
            txt = ' '.join(show(e) for e in walk_all_exprs(st['body']))
            if 'getErrors' in txt or 'MACRO_COMPILE_NON_LR' in txt or ('errors' in txt and 'MacroDetector' in show(st.get('range') or st.get('c') or {}) + (st.get('range') or {}).get('cty', '')):
                coll = st
    if coll is None:
        Cc.unknown('apply_macros: error collection', 'the loop collecting the detector errors was not found')
    else:
        exits = [x for x in walk_stmts(coll['body']) if x['k'] in ('break', 'return')]
        # a break that belongs to an inner loop or switch does not leave the collecting loop
        inner = [x for y in walk_stmts(coll['body']) if y['k'] in ('for', 'rangefor', 'while', 'do', 'switch') for x in walk_stmts(y.get('body') or {'k': 'block', 's': [z for c in y.get('cases', []) for z in c['s']]}) if x['k'] == 'break']
        exits = [x for x in exits if not any(x is y for y in inner)]
        # ... and what one detector reports is added to what the others reported
        for x in walk_all_exprs(coll['body']):
            tgt = None
            how = None
            if x.get('k') == 'call' and x.get('obj') is not None and (x.get('callee') or '').split('::')[-1] in ('assign', 'operator=', 'swap', 'clear'):
                tgt, how = x['obj'], (x.get('callee') or '').split('::')[-1]
            elif x.get('k') == 'assign' and x.get('op', '=') == '=':
                tgt, how = x['l'], '='
            if tgt is None:
                continue
            root, path = field_chain(tgt)
            root = strip_casts(root) if root is not None else None
            declared_in_loop = root is not None and root.get('k') == 'ref' and any(
                st2['k'] == 'decl' and any(v['d'] == root.get('d') for v in st2['vars']) for st2 in walk_stmts(coll['body']))
            if path[-1:] == ['errors'] and 'ParseError' in (strip_casts(tgt).get('cty') or '') and not declared_in_loop:
                Cc.violation('apply_macros: errors are accumulated', 'inside the collecting loop the result\'s error list is replaced (%s) instead of extended: only the errors of the last '
                             'detector survive, an ambiguous macro defined earlier is dropped without any report' % how, W(am, x, mm.facts),
                             witness={'macros': 'an ambiguous macro followed by any other macro'})
        Cc.check(not exits, 'apply_macros: error collection', 'the collecting loop (line %s) has no break/return' % coll['loc'][0],
                 'error collection can stop early (line %s): the detectors after a rejected one are neither checked nor used' % (exits[0]['loc'][0] if exits else ''), W(am, exits[0] if exits else None, mm.facts))
    D = rep.rule('C12.d', 'every write to a parse-table cell sits in the fall-through branch of a switch on that cell\'s kind whose '
                          'other cases record a conflict', floor=3)
    gen_lams = [f for f in mm.facts.functions if f['kind'] == 'lambda' and 'generateParseTables' in f.get('parent', '') and f['tmpl'] in ('none', 'inst')]
    gpt = [f for f in mm.facts.functions if f['q'].endswith('>::generateParseTables') and f['tmpl'] == 'inst']
    n_writes = 0
    # lambdas of generateParseTables that record a conflict (push onto the result list)
    recorders = set()
    for f in gen_lams:
        if any(is_call(x, '::push_back') for x in walk_all_exprs(f['body'])) and not any(
                (x.get('k') == 'call' and (x.get('callee') or '').endswith('::operator=')) for x in walk_all_exprs(f['body'])):
            recorders.add(f['q'])
    for f in gen_lams + gpt:
        gfn = None
        for e in walk_all_exprs(f['body']):
            iswrite = (e.get('k') == 'call' and (e.get('callee') or '').endswith('::operator=') and e.get('obj') is not None) or e.get('k') == 'assign'
            if not iswrite:
                continue
            tgt = strip_casts(e.get('obj') or e.get('l'))
            if not (is_call(tgt, '::operator[]') and is_call(strip_casts(tgt['obj']), '::operator[]') and show(strip_casts(tgt['obj'])['obj']).endswith('action')):
                continue
            n_writes += 1
            cell = show(tgt)
            gfn = gfn or mm.M.cfg(f)
            ev = gfn.ev(e)
            rhs = mm.M.origin(f, (e['args'][0] if e.get('k') == 'call' else e['r']))
            written = None
            for x in walk_expr(rhs):
                if x.get('k') == 'ref' and x.get('dk') == 'enumerator' and x['q'].split('::')[-2:-1] == ['Action'] or (x.get('k') == 'ref' and x.get('dk') == 'enumerator' and 'Action' in x.get('q', '')):
                    written = x['name']
                    break
            need = {'REDUCE'} if written == 'SHIFT' else {'REDUCE', 'SHIFT'}

            def eq_kind(K):
                def pred(c):
                    if c.get('k') != 'bin' or c['op'] != '==':
                        return False
                    sides = [show(strip_casts(c['l'])), show(strip_casts(c['r']))]
                    return (cell + '.t') in sides and any(x.split('::')[-1] == K or x == K for x in sides)
                return pred
            excluded = set()
            guards = gfn.guards_of(ev)
            for cond, label, cn in guards:
                if isinstance(label, tuple) and label[0] == 'case' and show(strip_casts(cond)) == cell + '.t':
                    if 'default' in label[1] or '<none>' in label[1]:
                        for b in cn.succ:
                            if b.kind == 'branch' and isinstance(b.label, tuple):
                                excluded |= set(x for x in b.label[1] if x not in ('default', '<none>') and x not in label[1])
                elif isinstance(label, bool):
                    for K in ('REDUCE', 'SHIFT', 'ACCEPT'):
                        if guard_implies(cond, label, eq_kind(K), False):
                            excluded.add(K)
            missing = need - excluded
            # every excluded (conflicting) kind must be recorded on its branch
            unrecorded = []
            for K in need & excluded:
                rec = False
                for ev2 in gfn.calls():
                    c2 = ev2.e
                    is_rec = is_call(c2, '::push_back') or (c2.get('callee_lambda_id') in recorders)
                    if not is_rec or ev2.conditional:
                        continue
                    for nid in gfn.dom[ev2.node.id]:
                        bn = gfn.nodes[nid]
                        if bn.kind != 'branch' or not bn.of.exprs:
                            continue
                        cond, label = gfn.expanded(bn.of.exprs[0]), bn.label
                        hit = (isinstance(label, tuple) and label[0] == 'case' and show(strip_casts(cond)) == cell + '.t' and K in label[1]) or \
                              (isinstance(label, bool) and guard_implies(cond, label, eq_kind(K), True))
                        # recorded on every path through the branch of kind K
                        if hit and ev2.node.id in gfn.pdom[bn.id]:
                            rec = True
                if not rec:
                    unrecorded.append(K)
            inst = '%s: %s = %s' % (f['q'].split('/')[-1], cell, written or '?')
            if missing:
                D.violation(inst, 'the cell is overwritten although it may already hold a %s action: the conflict is neither detected nor reported' % '/'.join(sorted(missing)), W(f, e, mm.facts))
            elif unrecorded:
                D.violation(inst, 'a cell that already holds a %s action is left alone but no conflict is recorded' % '/'.join(sorted(unrecorded)), W(f, e, mm.facts))
            else:
                D.ok(inst, 'written only when the cell holds none of %s; each of those cases records a conflict' % sorted(need), W(f, e, mm.facts))
    Ff = rep.rule('C12.f', 'every macro definition gets a detector whose tables are generated from its own pattern', floor=1)
    gd = mm.facts.fn('get_detectors')
    rep.analysed(gd)
    pushes = [e for e in walk_all_exprs(gd['body']) if (is_call(e, '::push_back') or is_call(e, '::emplace_back')) and 'MacroDetector' in (e['obj'].get('cty') or '')]
    loopvars = [st['var'] for st in walk_stmts(gd['body']) if st['k'] == 'rangefor']
    okf = bool(pushes) and bool(loopvars)
    whyf = 'no detector is created per definition'
    for e in pushes:
        a = strip_conv(e['args'][0]) if e['args'] else None
        src = None
        if a is not None and a.get('k') == 'construct' and a.get('rec') == 'MacroDetector' and a['args']:
            src = strip_conv(a['args'][0])
        elif is_call(e, '::emplace_back') and a is not None:
            src = a
        if src is not None and src.get('k') == 'ref' and src.get('dk') == 'var' and not any(src.get('d') == lv['d'] for lv in loopvars):
            # push_back(det) with  auto det = MacroDetector(def);
            o_ = mm.M.origin(gd, src)
            o_ = strip_conv(strip_copies(strip_casts(o_))) if o_ is not None else None
            if o_ is not None and o_.get('k') == 'construct' and o_.get('rec') == 'MacroDetector' and o_.get('args'):
                src = strip_conv(o_['args'][0])
        if not (src is not None and src.get('k') == 'ref' and any(src.get('d') == lv['d'] for lv in loopvars)):
            okf = False
            whyf = 'a detector is pushed that was not built from the definition being visited (%s): its parse tables (and conflict verdict) come from another pattern' % show(e)[:80]
    # a detector keeps its verdict when it is copied or moved (vectors of detectors reallocate): a hand-written copy / move constructor or assignment
    # of MacroDetector transfers every field
    try:
        drec = mm.facts.record('MacroDetector')
        fnames = [x['name'] for x in drec['fields']]
        for f2 in mm.facts.functions:
            if f2.get('kind') != 'ctor' or f2.get('body') is None or not f2['q'].startswith('MacroDetector::') or len(f2.get('params', [])) != 1:
                continue
            pt = (f2['params'][0].get('cty') or '').replace('const ', '').replace('&', '').strip()
            if pt != 'MacroDetector':
                continue
            inited = set(ci.get('field') for ci in (f2.get('ctor_inits') or []) if ci.get('init') is not None and
                         any(y.get('k') == 'ref' and y.get('d') == f2['params'][0]['d'] for y in walk_expr(ci['init'])))
            for x in walk_all_exprs(f2['body']):
                t_ = strip_casts(x.get('l')) if x.get('k') == 'assign' else (strip_casts(x.get('obj')) if x.get('k') == 'call' and (x.get('callee') or '').endswith('::operator=') else None)
                if t_ is not None and t_.get('k') == 'member':
                    inited.add(t_['name'])
            missing = [n_ for n_ in fnames if n_ not in inited]
            Ff.check(not missing, 'MacroDetector(%s)' % f2['params'][0].get('cty'), 'the hand-written copy/move constructor transfers every field %s' % fnames,
                     'the hand-written copy/move constructor of MacroDetector does not transfer %s: when the vector of detectors reallocates, a detector loses its conflict list - the '
                     'ambiguous macro is no longer reported and is applied' % missing, W(f2, None, mm.facts),
                     witness={'macros': 'an ambiguous macro followed by another definition'} if missing else None)
    except AnalysisBroken:
        pass
    # ... for every definition: the push is not under a condition (no definition is skipped)
    if okf:
        ggd = mm.M.cfg(gd)
        for e in pushes:
            if e.get('sid') not in ggd.by_sid:
                continue
            gs_ = [(c, lab) for c, lab, cn in ggd.guards_of(ggd.ev(e)) if isinstance(lab, bool)]
            if gs_:
                okf = False
                whyf = 'a definition gets a detector only when (%s) is %s: the other definitions are never applied and their patterns never checked - which of two ' \
                       'definitions is used then depends on the order of definition' % (show(gs_[0][0])[:90], str(gs_[0][1]).lower())
    Ff.check(okf, 'get_detectors', '%d push(es), each MacroDetector(def) of the visited definition' % len(pushes), whyf, W(gd, None, mm.facts),
             witness={'input': 'DEFINE PRIO 1 <V> ++ AS a END DEFINE  DEFINE PRIO 9 <V> ++ AS b END DEFINE  x ++'} if not okf else None)
    E = rep.rule('C12.e', 'in prefix mode an item whose look-ahead is the end marker places its action in every column; container keys '
                          'of the LR construction are discriminating strict weak orders', floor=4)
    for f in gpt:
        rep.analysed(f)
        prefix_columns_rule(mm, E, f, gen_lams)
    kf = Facts(['Compiler/src/ParserGenerator/grammar.cpp', 'Compiler/src/ParserGenerator/lrdea.cpp'])
    rep.note_facts(kf)
    for f, kind, host in cmpeval.find_comparators(kf):
        if kind != 'operator<':
            continue
        name = f['sig'].split('(')[1].split(' ')[1] if '(' in f['sig'] else f['sig']
        try:
            c = cmpeval.Cmp(f, kf)
            tbl, problems, cnt = c.analyse(need_discriminating=True)
            # every field of the key record must take part
            rec = None
            pt = f['params'][0]['cty'].replace('const ', '').replace(' &', '')
            try:
                rec = kf.record(pt)
            except AnalysisBroken:
                rec = None
            missing = []
            if rec is not None and pt != 'Theo::LRState':
                missing = [x['name'] for x in rec['fields'] if x['name'] not in c.fields]
            why = [p[1] for p in problems] + (['field(s) %s do not take part: distinct keys collapse' % missing] if missing else [])
            E.check(not why, 'operator<(%s)' % pt, 'strict weak order over %s (%d triples), equivalent only if all fields equal' % (c.fields, cnt), '; '.join(why), W(f, None, kf))
        except cmpeval.CrossField as ex:
            E.violation('operator<(%s)' % f['params'][0]['cty'], str(ex), W(f, None, kf))
        except cmpeval.Lossy as ex:
            E.violation('operator<(%s)' % f['params'][0]['cty'], 'the order does not discriminate distinct keys: %s' % ex, W(f, None, kf))
        except cmpeval.Unsupported as ex:
            E.unknown('operator<(%s)' % f['params'][0]['cty'], str(ex))
    # the automaton is complete: the work-list loop of elements() expands every state it ever adds and every transition of it - a state
    # that is left unexpanded has no actions, and the conflict that sits behind it is never seen
    el = kf.fn('Theo::elements', optional=True)
    if el is None:
        E.unknown('elements(): every state is expanded', 'Theo::elements not found')
    else:
        rep.analysed(el)
        outer = [st for st in walk_stmts(el['body']) if st['k'] in ('for', 'while') and any(x['k'] in ('rangefor', 'for') for x in walk_stmts(st.get('body')))]
        if len(outer) != 1 or outer[0]['k'] != 'for' or outer[0].get('c') is None:
            E.unknown('elements(): every state is expanded', 'work-list loop not recognised')
        else:
            L = outer[0]
            c = strip_casts(L['c'])
            whyl = None
            ok_cond = c.get('k') == 'bin' and c['op'] in ('<', '!=') and is_call(strip_casts(c['r']), '::size') and strip_casts(c['l']).get('k') == 'ref'
            if not ok_cond:
                if c.get('k') == 'bin' and c['op'] == '&&':
                    whyl = 'the loop over the states also stops when (%s) fails: states beyond that point are never expanded' % show(c)[:80]
                else:
                    E.unknown('elements(): every state is expanded', 'loop condition %s' % show(c)[:60])
                    whyl = ''
            jumps = [x for x in walk_stmts(L['body']) if x['k'] in ('break', 'continue', 'return')]
            if whyl is None and jumps:
                whyl = 'the expansion of a state can be cut short (%s at line %d): some of its transitions are never built' % (jumps[0]['k'], jumps[0]['loc'][0])
            inc = show(L.get('inc') or {})
            if whyl is None and not ('++' in inc):
                whyl = ''
                E.unknown('elements(): every state is expanded', 'loop increment %s' % inc[:40])
            if whyl != '':
                E.check(whyl is None, 'elements(): every state is expanded', 'for (i = 0; i < result.size(); i++) over a growing list, no early exit',
                        (whyl or '') + ': the unexpanded states have no actions, so a conflict behind them is not found and an ambiguous pattern is accepted', W(el, L, kf),
                        witness={'input': 'a long pattern with several <V>/<P> slots whose conflict state lies behind the cut'} if whyl else None)


def _action_writes(f):
    for e in walk_all_exprs(f['body']):
        iswrite = (e.get('k') == 'call' and (e.get('callee') or '').endswith('::operator=') and e.get('obj') is not None) or e.get('k') == 'assign'
        if not iswrite:
            continue
        tgt = strip_casts(e.get('obj') or e.get('l'))
        if is_call(tgt, '::operator[]') and is_call(strip_casts(tgt['obj']), '::operator[]') and show(strip_casts(tgt['obj'])['obj']).endswith('action'):
            yield e, tgt


def prefix_columns_rule(mm, E, f, lams):
    """Under the hypothesis H = (accept_prefix && item look-ahead is the end marker) every placement of a completed item
    reachable in generateParseTables must range over the columns [0, action_width)."""
    M = mm.M
    # placers: lambda -> (column parameter index, kinds written)
    placers = {}
    for lam in lams:
        for e, tgt in _action_writes(lam):
            col = strip_casts(tgt['args'][0])
            rhs = M.origin(lam, e['args'][0] if e.get('k') == 'call' else e['r'])
            kinds = set(x['name'] for x in walk_expr(rhs) if x.get('k') == 'ref' and x.get('dk') == 'enumerator')
            if not kinds & {'REDUCE', 'ACCEPT'}:
                continue
            for i, p in enumerate(lam['params']):
                if col.get('k') == 'ref' and col.get('d') == p.get('d'):
                    pc = placers.setdefault(lam['q'], [i, set()])
                    pc[1] |= kinds & {'REDUCE', 'ACCEPT'}
    changed = True
    while changed:                       # wrappers forwarding one of their parameters as the column
        changed = False
        for lam in lams:
            for e in walk_all_exprs(lam['body']):
                pl = placers.get(e.get('callee_lambda_id')) if e.get('k') == 'call' else None
                if pl is None or lam['q'] == e.get('callee_lambda_id') or len(e['args']) <= pl[0]:
                    continue
                col = strip_casts(e['args'][pl[0]])
                for i, p in enumerate(lam['params']):
                    if col.get('k') == 'ref' and col.get('d') == p.get('d'):
                        cur = placers.setdefault(lam['q'], [i, set()])
                        if not pl[1] <= cur[1]:
                            cur[1] |= pl[1]
                            changed = True
    if not placers:
        E.unknown('generateParseTables: prefix mode', 'no lambda placing REDUCE/ACCEPT actions by column was recognised')
        return

    def evalH(c, depth=0):
        c = strip_casts(c)
        if c is None or depth > 6:
            return None
        if c.get('k') == 'paren':
            return evalH(c['e'], depth)
        if c.get('k') in ('ref', 'member') and (c.get('name') == 'accept_prefix' or show(c).endswith('accept_prefix')):
            return True
        if c.get('k') == 'ref':
            o = M.origin(f, c)
            return evalH(o, depth + 1) if o is not c and o.get('k') != 'ref' else None
        if c.get('k') == 'un' and c['op'] == '!':
            v = evalH(c['e'], depth)
            return None if v is None else not v
        if c.get('k') == 'bin' and c['op'] in ('&&', '||'):
            l, r = evalH(c['l'], depth), evalH(c['r'], depth)
            if c['op'] == '&&':
                return False if (l is False or r is False) else (True if (l and r) else None)
            return True if (l or r) else (False if (l is False and r is False) else None)
        if c.get('k') == 'bin' and c['op'] in ('==', '!='):
            sides = sorted([show(strip_casts(c['l'])), show(strip_casts(c['r']))])
            if sides[0].endswith('follow.index') and sides[1].endswith('eof.index') or (sides[1].endswith('follow.index') and sides[0].endswith('eof.index')):
                return c['op'] == '=='
        return None

    def mentionsH(c):
        t = show(c)
        return 'accept_prefix' in t or ('eof' in t and 'follow' in t)

    def resolve(e, depth=0):
        e = strip_casts(e)
        if e is None or depth > 6:
            return None
        if e.get('k') == 'paren':
            return resolve(e['e'], depth)
        if e.get('k') == 'int':
            return e['v']
        if e.get('k') == 'cond':
            v = evalH(e['c'])
            return None if v is None else resolve(e['t'] if v else e['f'], depth + 1)
        if e.get('k') in ('ref', 'member') and show(e).endswith('action_width'):
            return 'action_width'
        if e.get('k') == 'ref':
            o = M.origin(f, e)
            return resolve(o, depth + 1) if o is not e else None
        if is_call(e, '::size') and e.get('obj') is not None:
            # the width of a row of the action table: action = vector(height, vector<Action>(W, ...)), rows never resized
            row = strip_casts(e['obj'])
            if is_call(row, '::operator[]') and show(row['obj']).replace('this->', '') == 'action':
                widths = []
                for x in walk_all_exprs(f['body']):
                    if is_call(x, '::operator=') and x.get('obj') is not None and show(x['obj']).replace('this->', '') == 'action' and x.get('args'):
                        outer = strip_casts(x['args'][0])
                        w = None
                        if outer is not None and outer.get('k') == 'construct' and len(outer.get('args', [])) >= 2:
                            inner = strip_casts(outer['args'][1])
                            if inner is not None and inner.get('k') == 'construct' and inner.get('args'):
                                w = resolve(inner['args'][0], depth + 1)
                        widths.append(w)
                    elif x.get('k') == 'call' and x.get('obj') is not None and (x.get('callee') or '').split('::')[-1] in (
                            'resize', 'push_back', 'emplace_back', 'pop_back', 'clear', 'erase', 'insert', 'assign'):
                        o2 = strip_casts(x['obj'])
                        if show(o2).replace('this->', '') == 'action' or (is_call(o2, '::operator[]') and show(o2['obj']).replace('this->', '') == 'action'):
                            widths.append(None)
                if len(widths) == 1 and widths[0] is not None:
                    return widths[0]
        return None

    g = M.cfg(f)
    loops = {}
    for st in walk_stmts(f['body']):
        if st['k'] == 'for':
            cv = counter_of(st)
            if cv is not None:
                loops[cv['d']] = st
    found = 0
    kinds_full = set()
    for ev in g.calls(lambda e: e.get('callee_lambda_id') in placers):
        pl = placers[ev.e['callee_lambda_id']]
        if len(ev.e['args']) <= pl[0]:
            continue
        reach = True
        unk = None
        cell_guard = [cond for cond, label, cn in g.guards_of(ev) if isinstance(label, bool) and 'action[' in show(cond)]
        if cell_guard:
            E.violation('generateParseTables: %s' % show(ev.e)[:50], 'the placement of a completed item is skipped depending on what the cell already holds (%s): the conflict between this item '
                        'and the action that is already there is never recorded, so an ambiguous pattern is accepted' % show(cell_guard[0])[:60], W(f, ev.e, mm.facts),
                        witness={'pattern': "<P> ';'"})
        for cond, label, cn in g.guards_of(ev):
            if not isinstance(label, bool):
                continue
            v = evalH(cond)
            if v is None:
                if mentionsH(cond):
                    unk = 'guard %s' % show(cond)[:80]
                continue
            if v != label:
                reach = False
        if not reach:
            continue
        found += 1
        inst = 'generateParseTables: prefix mode: %s' % show(ev.e)[:60]
        if unk:
            E.unknown(inst, 'cannot decide whether this placement is reached in prefix mode (%s)' % unk)
            continue
        col = strip_casts(ev.e['args'][pl[0]])
        L = loops.get(col.get('d')) if col.get('k') == 'ref' else None
        if L is None:
            E.violation(inst, 'in prefix mode an end-marker item is placed in the single column %s: the detector would insist on end of input, '
                        'or open-ended patterns lose their accept' % show(col), W(f, ev.e, mm.facts))
            continue
        cv = counter_of(L)
        lo = resolve(cv.get('init'))
        c = strip_casts(L.get('c'))
        hi = None
        strict = None
        if c is not None and c.get('k') == 'bin' and c['op'] in ('<', '!=', '<=') and strip_casts(c['l']).get('d') == cv['d']:
            hi = resolve(c['r'])
            strict = c['op'] != '<='
        inc = strip_casts(L.get('inc')) if L.get('inc') else None
        okinc = inc is not None and ((inc.get('k') == 'un' and inc['op'] == '++' and strip_casts(inc['e']).get('d') == cv['d']) or
                                     (inc.get('k') == 'assign' and inc['op'] == '+=' and strip_casts(inc['r']).get('v') == 1))
        single = False
        if okinc and c is not None and c.get('k') == 'bin' and strict and cv.get('init') is not None:
            r = strip_casts(c['r'])
            while r is not None and r.get('k') == 'ref' and M.origin(f, r) is not r:
                r = M.origin(f, r)
            if r is not None and r.get('k') == 'cond' and evalH(r['c']) is not None:
                r = strip_casts(r['t'] if evalH(r['c']) else r['f'])
            i0 = strip_casts(cv['init'])
            if r is not None and r.get('k') == 'bin' and r['op'] == '+' and strip_casts(r['r']).get('v') == 1 and \
                    show(strip_casts(r['l'])) == show(i0) and lo != 0:
                single = True
        if single:
            E.violation(inst, 'in prefix mode end-marker items are placed in the single column %s instead of every column' % show(cv['init']), W(f, L, mm.facts))
        elif lo is None or hi is None or not okinc:
            E.unknown(inst, 'column loop bounds not resolved under the prefix-mode hypothesis (%s; %s)' % (show(cv.get('init')), show(c)))
        elif lo == 0 and hi == 'action_width' and strict:
            kinds_full |= pl[1]
            E.ok(inst, 'columns [0, action_width) under accept_prefix && look-ahead == end marker', W(f, ev.e, mm.facts))
        else:
            E.violation(inst, 'end-marker items no longer cover every column in prefix mode (columns from %s to %s%s)' % (lo, hi, '' if strict else ' inclusive'),
                        W(f, L, mm.facts))
    if found == 0:
        E.violation('generateParseTables: prefix mode', 'no placement of a completed item is reachable when accept_prefix holds and the look-ahead is the end marker',
                    'Compiler/include/ParserGenerator/lrparser.hpp')
    elif kinds_full and kinds_full != {'REDUCE', 'ACCEPT'}:
        E.violation('generateParseTables: prefix mode', 'only %s actions are spread over every column in prefix mode' % sorted(kinds_full),
                    'Compiler/include/ParserGenerator/lrparser.hpp')


def non_lr_error_rule(mm, rep, A):
    """The MACRO_COMPILE_NON_LR record: built under "gen_res is not empty", located at the first pattern token, in whichever
    member function of MacroDetector builds it (getErrors at the pinned commit)."""
    methods = [f for f in mm.facts.functions if f['q'].startswith('MacroDetector::') and f.get('body') is not None and
               not f['q'].split('::')[-1].startswith('lambda@')]
    sites = []
    for f in methods:
        for e in walk_all_exprs(f['body']):
            if (is_call(e, '::push_back') or is_call(e, '::emplace_back')) and 'MACRO_COMPILE_NON_LR' in show(e):
                sites.append((f, e))
    if not sites:
        # the record built directly in a return statement:  return {ParseError{MACRO_COMPILE_NON_LR, ...}};
        for f in methods:
            for st in walk_stmts(f['body']):
                if st['k'] == 'return' and st.get('e') is not None:
                    recs = [x for x in walk_expr(st['e']) if x.get('k') in ('init', 'construct') and (x.get('rec') or '').endswith('ParseError') and
                            'MACRO_COMPILE_NON_LR' in show(x)]
                    if recs:
                        sites.append((f, recs[0]))
    if not sites:
        # built outside the detector: the location then has to be found through some correspondence between detectors and definitions
        outside = []
        for f in mm.facts.functions:
            if f.get('body') is None or not f['file'].endswith('macro.cpp') or f['q'].startswith('MacroDetector::'):
                continue
            for e in walk_all_exprs(f['body']):
                if (is_call(e, '::push_back') or is_call(e, '::emplace_back')) and 'MACRO_COMPILE_NON_LR' in show(e):
                    outside.append((f, e))
        gd = mm.facts.fn('get_detectors', optional=True)
        for f, e in outside:
            srcs = [mm.M.origin(f, x) for x in walk_expr(e) if x.get('k') == 'ref' and x.get('dk') == 'var']
            txt = show(e) + ' ' + ' '.join(show(x) for x in srcs if x is not None)
            if 'definitions[' in txt and gd is not None:
                reorder = [x for x in walk_all_exprs(gd['body']) if x.get('k') == 'call' and (x.get('callee') or '').split('::')[-1] in
                           ('sort', 'stable_sort', 'reverse', 'rotate', 'shuffle', 'partition', 'stable_partition', 'erase', 'insert', 'swap', 'iter_swap', 'nth_element', 'partial_sort')]
                if reorder:
                    A.violation('%s: conflict error' % f['q'].split('::')[-1], 'the error of detector i is located at definitions[i], but get_detectors reorders its result (%s, line %s): '
                                'detector i is no longer built from definition i, so the error names another definition' % (reorder[0]['callee'].split('::')[-1], reorder[0]['loc'][0]),
                                W(f, e, mm.facts))
                    return
    if len(sites) != 1:
        A.unknown('MacroDetector: conflict error', '%d construction(s) of the MACRO_COMPILE_NON_LR record found in MacroDetector' % len(sites))
        return
    f, e = sites[0]
    rep.analysed(f)
    g = mm.M.cfg(f)
    ev = g.ev(e)

    def size_table(c):
        """truth of c for gen_res.size() = 0, 1, 2, 3; None when c is not a test of the size of gen_res"""
        c = strip_casts(c)
        if c is None:
            return None
        if c.get('k') == 'paren':
            return size_table(c['e'])
        if c.get('k') == 'un' and c['op'] == '!':
            v = size_table(c['e'])
            return None if v is None else [not x for x in v]
        if is_call(c, '::empty') and 'gen_res' in show(c['obj']):
            return [True, False, False, False]
        if c.get('k') == 'bin' and c['op'] in ('<', '>', '<=', '>=', '==', '!='):
            l, r = strip_casts(c['l']), strip_casts(c['r'])
            import operator as _o
            ops = {'<': _o.lt, '>': _o.gt, '<=': _o.le, '>=': _o.ge, '==': _o.eq, '!=': _o.ne}
            if is_call(l, '::size') and 'gen_res' in show(l['obj']) and r.get('k') == 'int':
                return [ops[c['op']](n, r['v']) for n in range(4)]
            if is_call(r, '::size') and 'gen_res' in show(r['obj']) and l.get('k') == 'int':
                return [ops[c['op']](l['v'], n) for n in range(4)]
        if c.get('k') == 'bin' and c['op'] in ('&&', '||'):
            a, b2 = size_table(c['l']), size_table(c['r'])
            if a is not None and b2 is not None:
                return [(x and y) if c['op'] == '&&' else (x or y) for x, y in zip(a, b2)]
        return None
    verdicts = []
    reach = [True, True, True, True]     # for which sizes of gen_res the construction is reached
    unrec = False
    for cond, label, cn in g.guards_of(ev):
        if not isinstance(label, bool):
            continue
        tb = size_table(cond)
        if tb is None:
            unrec = True
            continue
        reach = [r and (t == label) for r, t in zip(reach, tb)]
    if not all(reach[1:]):
        verdicts = ['partial']          # further (unrecognised) guards can only restrict more
    elif reach == [False, True, True, True]:
        verdicts = [True]
    elif unrec:
        verdicts = [None]               # reached for size 0 unless the unrecognised guard excludes it
    elif reach == [True] * 4 and not any(isinstance(l, bool) for c, l, cn in g.guards_of(ev)):
        verdicts = []
    else:
        verdicts = [False]
    txt = show(e).replace('this->', '')
    # locals standing for the first pattern token are spelled out (const Token &first = md.rule.front())
    for x in walk_expr(e):
        if x.get('k') == 'ref' and x.get('dk') == 'var':
            o = mm.M.origin(f, x)
            if o is not None and o is not x:
                txt = txt.replace(x['name'] + '.', show(strip_copies(strip_casts(o))).replace('this->', '') + '.').replace(x['name'] + '->', show(strip_copies(strip_casts(o))).replace('this->', '') + '->')
    first = any(p in txt for p in ('rule.begin()->file', 'rule.front().file', 'rule[0].file', 'rule.at(0).file')) and \
        any(p in txt for p in ('rule.begin()->line', 'rule.front().line', 'rule[0].line', 'rule.at(0).line'))
    other_pos = any(p in txt for p in ('rule.back()', 'rule.end()', 'rule.rbegin()', 'replacement'))
    if not first and not other_pos:
        # structurally: the record's file and line are fields of the first element of the pattern, however that element is named
        def which_elem(b):
            b = strip_casts(b)
            while b is not None and b.get('k') == 'paren':
                b = strip_casts(b['e'])
            if b is not None and b.get('k') == 'ref' and b.get('dk') == 'var':
                o = mm.M.origin(f, b)
                if o is not None and o is not b:
                    return which_elem(o)
                return None
            if b is None:
                return None
            if b.get('k') == 'call' and b.get('op') in ('*', '->') and b.get('obj') is not None and not b.get('args'):
                it = strip_conv(b['obj'])
                if it is not None and it.get('k') == 'ref':
                    it = strip_conv(mm.M.origin(f, it))
                if is_call(it, '::begin') or is_call(it, '::cbegin'):
                    return ('first', show(it['obj']))
                return ('other', show(it) if it is not None else '?')
            if is_call(b, '::front'):
                return ('first', show(b['obj']))
            if is_call(b, '::back'):
                return ('other', show(b))
            if (is_call(b, '::operator[]') or is_call(b, '::at')) and b.get('args'):
                i0 = strip_casts(b['args'][0])
                return ('first', show(b['obj'])) if i0 is not None and i0.get('k') == 'int' and i0.get('v') == 0 else ('other', show(b))
            return None
        srcs = {}
        for x in walk_expr(e):
            if x.get('k') == 'member' and x.get('name') in ('file', 'line') and x.get('base') is not None:
                srcs.setdefault(x['name'], []).append(which_elem(x['base']))
        if set(srcs) == {'file', 'line'} and all(v is not None for vs in srcs.values() for v in vs):
            allv = [v for vs in srcs.values() for v in vs]
            if all(v[0] == 'first' and v[1].replace('this->', '').endswith('rule') for v in allv):
                first = True
            else:
                other_pos = True
                txt = 'file/line taken from %s' % sorted(set(v[1] for v in allv if v[0] != 'first' or not v[1].endswith('rule')))
    inst = '%s: conflict error' % f['q'].split('::')[-1]
    where = W(f, e, mm.facts)
    if ev.conditional:
        A.unknown(inst, 'error constructed inside a conditional expression')
    elif 'partial' in verdicts:
        A.violation(inst, 'the error is not reported for every non-empty conflict list (missed when gen_res.size() is %s)' % [n for n in (1, 2, 3) if not reach[n]], where)
    elif False in verdicts:
        A.violation(inst, 'the error is reported when table generation found NO conflict (guard polarity)', where)
    elif True not in verdicts and not verdicts:
        A.violation(inst, 'the error is reported unconditionally: every macro is rejected as non-LR', where)
    elif True not in verdicts:
        A.unknown(inst, 'guard of the error construction not recognised: %s' % [show(c)[:60] for c, l, cn in g.guards_of(ev)])
    elif other_pos and not first:
        A.violation(inst, 'the error is not located at the first pattern token: %s' % txt[:120], where)
    elif not first:
        A.unknown(inst, 'location of the error not recognised: %s' % txt[:120])
    else:
        stale = None
        is_ctor = f['q'].split('::')[-1] == 'MacroDetector' or f.get('kind') == 'ctor'
        if is_ctor:
            # built once at construction: the definition of a detector must then never be replaced afterwards
            for f2 in mm.facts.functions:
                if f2.get('body') is None or f2 is f:
                    continue
                for x in walk_all_exprs(f2['body']):
                    tgt = None
                    if x.get('k') == 'call' and (x.get('callee') or '').endswith('::operator=') and x.get('obj') is not None:
                        tgt = strip_casts(x['obj'])
                    elif x.get('k') == 'assign':
                        tgt = strip_casts(x['l'])
                    if tgt is not None and tgt.get('k') == 'member' and tgt.get('name') == 'md' and 'MacroDetector' in (strip_casts(tgt.get('base') or {}).get('cty') or ''):
                        stale = (f2, x)
        if stale:
            A.violation(inst, 'the error is built once in the constructor, but %s later replaces the detector\'s definition (%s): the stored error keeps the '
                        'position of another definition' % (stale[0]['q'], show(stale[1])[:60]), W(stale[0], stale[1], mm.facts))
        else:
            A.ok(inst, 'built only when gen_res is non-empty; type MACRO_COMPILE_NON_LR; location of the first pattern token', where)


def prios_name(am):
    for st in walk_stmts(am['body']):
        if st['k'] == 'decl':
            for v in st['vars']:
                if v['cty'].startswith('std::map<int,'):
                    return v['name']
    return None


def c06e(rep, tier):
    kf = Facts(['VM/src/program.cpp'])
    rep.note_facts(kf)
    E = rep.rule('C06.e', 'BreakPoint keys are ordered by a strict weak order that discriminates (file, line)', floor=1)
    for f, kind, host in cmpeval.find_comparators(kf):
        if kind != 'operator<' or 'BreakPoint' not in f['params'][0]['cty']:
            continue
        rep.analysed(f)
        try:
            c = cmpeval.Cmp(f, kf)
            tbl, problems, cnt = c.analyse(need_discriminating=True)
            missing = [x for x in ('file', 'line') if x not in c.fields]
            why = [p[1] for p in problems] + (['field %s ignored' % missing] if missing else [])
            E.check(not why, 'operator<(BreakPoint)', 'strict weak order over %s (%d triples), equivalent only if file and line are equal' % (c.fields, cnt),
                    '; '.join(why), W(f, None, kf))
        except cmpeval.CrossField as ex:
            E.violation('operator<(BreakPoint)', str(ex), W(f, None, kf))
        except cmpeval.Lossy as ex:
            E.violation('operator<(BreakPoint)', 'the order does not discriminate distinct locations: %s' % ex, W(f, None, kf))
        except cmpeval.Unsupported as ex:
            E.unknown('operator<(BreakPoint)', str(ex))


def identifier_only_result(mm, h):
    """h returns a std::string local that is built from a literal and `+=` of pieces each of which is provably an identifier
    character: a literal of identifier characters, or `C ? c : lit` / `c` under `if (C)` where C is isalnum/isalpha/isdigit(c)
    (optionally || c == '_')"""
    rets = [st for st in walk_stmts(h['body']) if st['k'] == 'return' and st.get('e') is not None]
    if len(rets) != 1:
        return False
    rv = strip_casts(strip_copies(rets[0]['e']))
    if rv is None or rv.get('k') != 'ref' or rv.get('dk') != 'var':
        return False
    ds = mm.M.defs(h).get(rv['d'], [])
    idre = re.compile(r'^[A-Za-z0-9_]*$')

    def lit_ok(x):
        x = strip_conv(x)
        if x is None:
            return False
        if x.get('k') == 'str':
            return bool(idre.match(x['v']))
        if x.get('k') == 'char':
            v = x.get('v')
            ch = chr(v) if isinstance(v, int) else str(v)
            return bool(idre.match(ch))
        return False

    def class_test(c, var_d):
        c = strip_casts(c)
        if c is None:
            return False
        if c.get('k') == 'paren':
            return class_test(c['e'], var_d)
        if c.get('k') == 'bin' and c['op'] == '||':
            return class_test(c['l'], var_d) and class_test(c['r'], var_d)
        if c.get('k') == 'call' and (c.get('callee') or '').split('::')[-1] in ('isalnum', 'isalpha', 'isdigit', 'isupper', 'islower') and c.get('args'):
            return any(y.get('k') == 'ref' and y.get('d') == var_d for y in walk_expr(c['args'][0]))
        if c.get('k') == 'bin' and c['op'] == '==':
            l, r = strip_casts(c['l']), strip_casts(c['r'])
            return (l.get('d') == var_d and lit_ok(r)) or (r.get('d') == var_d and lit_ok(l))
        return False

    def piece_ok(x, guards):
        x0 = strip_conv(x)
        if lit_ok(x0):
            return True
        if x0 is not None and x0.get('k') == 'cond':
            t, e = strip_conv(x0['t']), strip_conv(x0.get('f') or x0.get('e'))
            if t is not None and t.get('k') == 'ref' and class_test(x0['c'], t.get('d')) and lit_ok(e):
                return True
            return piece_ok(x0['t'], guards) and piece_ok(x0.get('f') or x0.get('e'), guards)
        if x0 is not None and x0.get('k') == 'ref':
            return any(lab is True and class_test(c, x0.get('d')) for c, lab in guards)
        return False
    g = mm.M.cfg(h)
    for kind, rhs, node in ds:
        if kind == 'init':
            if rhs is not None and not lit_ok(rhs) and not (strip_conv(rhs) or {}).get('k') == 'construct':
                return False
        elif kind == 'compound' and (node.get('callee') or '').endswith('operator+='):
            guards = [(c, lab) for c, lab, cn in g.guards_of(g.ev(node))] if node.get('sid') in g.by_sid else []
            if not piece_ok(node['args'][0], guards):
                return False
        else:
            return False
    return any(kind == 'compound' for kind, _, _ in ds)


# ============================================================================= pattern verdicts (C12.k)
def application_unconditional_rule(rep, mm):
    """the verdict on the macro definitions is part of macro application: the front end runs it on every path, also when the
    program text is empty"""
    R = rep.rule('C12.l', 'parse() applies the macros on every path (the conflict errors of the definitions are produced there)', floor=1)
    try:
        pf = Facts(['Compiler/src/parse.cpp'])
    except AnalysisBroken as ex:
        R.unknown('parse', str(ex))
        return
    rep.note_facts(pf)
    parse = pf.fn('Theo::parse')
    from .props_c02 import Multi as _M
    g = _M(pf).cfg(parse)
    calls = [ev for ev in g.calls() if is_call(ev.e, 'Theo::apply_macros')]
    if not calls:
        R.unknown('parse', 'no call of apply_macros')
        return
    R.check(any(g.on_all_paths(ev) and not ev.conditional for ev in calls), 'parse: apply_macros', 'called on every path through parse()',
            'macro application is skipped on some path (e.g. when no program text is left after the definitions): an ambiguous macro in a file of definitions only is never reported',
            W(parse, calls[0].e, pf), witness={'input': 'a library file that only contains DEFINE ... END DEFINE with an ambiguous pattern'})


def pattern_verdicts_rule(rep, mm, tier):
    """Which patterns get a conflict depends on the shape of the slot grammar, not only on its language (a right-recursive list
    rule rejects `<ARGS> , x`).  The grammar built by MacroDetector's constructor is read from the source and, for every
    pattern up to a bound over the five slot kinds and a set of literal tokens, the conflict verdict of the table generator's
    criterion under that grammar is compared with the verdict under the reference slot grammar."""
    import itertools
    import json as _json
    from .lr1 import has_conflict
    K = rep.rule('C12.k', 'for every pattern up to the bound the detector grammar gives the same verdict (conflict / no conflict) as the reference slot grammar: '
                          'deterministic patterns are accepted, ambiguous ones rejected', floor=1)
    try:
        cur = detector_grammar(mm)
    except AnalysisBroken as ex:
        K.unknown('detector grammar', str(ex))
        return
    ref = _json.load(open(os.path.join(VERIF, 'spec', 'detector_grammar.json')))['productions']
    slots = ['<ID>', '<INT>', '<VALUE>', '<ARGS>', '<P>']
    missing = [s_ for s_ in slots if s_ not in cur]
    if missing:
        K.unknown('detector grammar', 'no productions found for slot kind(s) %s' % missing)
        return
    terms = sorted(set(x for g_ in (cur, ref) for alts in g_.values() for alt in alts for x in alt if x not in cur and x not in ref))
    lits = [t for t in ('ID', 'INT', 'ARGSEP', 'PROGSEP', 'ASSIGN', 'END', 'DO', 'LOOP', 'LABELDEC', 'RUN') if t in terms] + ['OUT']
    alphabet = slots + lits
    bound = 3 if tier == 'quick' else 4
    n = 0
    rejected_but_ok, accepted_but_ambiguous = [], []
    nconf = 0
    where = W(mm.facts.fn('MacroDetector::MacroDetector'), None, mm.facts)
    try:
        for L in range(1, bound + 1):
            for pat in itertools.product(alphabet, repeat=L):
                n += 1
                c1 = has_conflict(cur, pat)[0]
                c2 = has_conflict(ref, pat)[0]
                nconf += 1 if c2 else 0
                if c1 and not c2 and len(rejected_but_ok) < 3:
                    rejected_but_ok.append(pat)
                if c2 and not c1 and len(accepted_but_ambiguous) < 3:
                    accepted_but_ambiguous.append(pat)
    except RuntimeError as ex:
        K.unknown('pattern verdicts', 'LR(1) construction too large: %s' % ex)
        return

    def spell(pat):
        names = {'ARGSEP': "','", 'PROGSEP': "';'", 'ASSIGN': "':='", 'LABELDEC': "':'", 'ID': 'name', 'INT': '7', 'OUT': 'OUT'}
        return ' '.join(names.get(x, x) for x in pat)
    K.check(not rejected_but_ok, 'deterministic patterns are accepted', '%d patterns up to %d symbols over %d slot kinds and %d literals: no pattern that the reference accepts gets a conflict'
            % (n, bound, len(slots), len(lits)),
            'the pattern "%s" is prefix-deterministic under the reference slot grammar but the detector grammar gives it a conflict (e.g. a list rule that recurses on the right): '
            'macros with it are reported as non-linear and never applied' % (spell(rejected_but_ok[0]) if rejected_but_ok else ''), where,
            witness={'patterns': [spell(p_) for p_ in rejected_but_ok]} if rejected_but_ok else None)
    K.check(not accepted_but_ambiguous, 'ambiguous patterns are rejected', '%d of the %d patterns have a conflict under the reference grammar; all of them have one under the detector grammar' % (nconf, n),
            'the pattern "%s" has a conflict under the reference slot grammar but none under the detector grammar: an ambiguous macro is accepted without an error'
            % (spell(accepted_but_ambiguous[0]) if accepted_but_ambiguous else ''), where,
            witness={'patterns': [spell(p_) for p_ in accepted_but_ambiguous]} if accepted_but_ambiguous else None)
    rep.extra['patterns_compared'] = n


# ============================================================================= detector grammar (C09.h)
def detector_grammar(mm):
    """productions of the pattern grammar built in MacroDetector's constructor: {NT: [[sym,...],...]}; terminals are
    Token::Type names, non-terminals the names of the local Symbol variables"""
    ctor = mm.facts.fn('MacroDetector::MacroDetector')
    prods = {}

    def syms(e):
        e = strip_conv(e)
        if e is None:
            raise AnalysisBroken('detector grammar: empty symbol')
        if e.get('k') == 'call' and e.get('op') == ',':
            out = []
            for a in ([e['obj']] if e.get('obj') is not None else []) + list(e['args']):
                out.extend(syms(a))
            return out
        if e.get('k') == 'call' and e.get('op') == '()' and e['args']:
            t = strip_casts(e['args'][0])
            if t.get('k') == 'ref' and t.get('dk') == 'enumerator':
                return [t['name']]
        if e.get('k') == 'call' and (e.get('callee') or '').endswith('Symbol::Terminal') and e['args']:
            t = strip_casts(e['args'][0])
            if t.get('k') == 'ref' and t.get('dk') == 'enumerator':
                return [t['name']]
        if e.get('k') == 'ref' and e.get('dk') == 'var':
            return ['<%s>' % e['name']]
        if e.get('k') == 'construct' and len(e.get('args') or []) == 1:
            return syms(e['args'][0])
        raise AnalysisBroken('detector grammar: cannot read symbol %s' % show(e))
    for e in walk_all_exprs(ctor['body']):
        if e.get('k') == 'call' and (e.get('callee') or '').endswith('::add') and e['args']:
            r = strip_conv(e['args'][0])
            if not (r.get('k') == 'call' and r.get('op') == '>>'):
                continue
            ops = ([r['obj']] if r.get('obj') is not None else []) + list(r['args'])
            lhs = syms(ops[0])
            rhs_e = strip_conv(ops[1])
            if rhs_e.get('k') == 'ref' and 'vector' in (rhs_e.get('cty') or ''):
                continue      # MACRO >> sym : the pattern itself
            prods.setdefault(lhs[0], []).append(syms(ops[1]))
    return prods


def c09_detector_grammar(rep, mm):
    from . import grammar as G
    H = rep.rule('C09.h', 'each slot kind of the detector grammar derives exactly the complete identifiers / integers / values / argument lists / '
                          'statement sequences of the language (bounded language equality with the reference grammar)', floor=5)
    prods = detector_grammar(mm)
    start, ref = G.load_reference()
    ref = dict(ref)
    # reference non-terminals for the slot kinds
    ref['<ID>'] = [['ID']]
    ref['<INT>'] = [['INT']]
    ref['<ARGS>'] = [['VALUE', 'MVARGS']]
    slot_ref = {'<ID>': '<ID>', '<INT>': '<INT>', '<VALUE>': 'VALUE', '<ARGS>': '<ARGS>', '<P>': 'P'}
    N = 8
    dprods = {k: [[s for s in alt] for alt in alts] for k, alts in prods.items()}
    for slot, rnt in slot_ref.items():
        if slot not in dprods:
            H.unknown('slot %s' % slot, 'no productions found for this slot kind in the detector grammar')
            continue
        got = enumerate_cfg(slot, dprods, N)
        want = G.enumerate_grammar(rnt, ref, N)
        extra = sorted(got - want, key=lambda s: (len(s), s))
        H.check(not extra and len(got) > 0, 'slot %s' % slot, '%d sentence(s) up to %d tokens, all derivable from %s of the language (%d)' % (len(got), N, rnt, len(want)),
                'the detector lets slot %s match %s, which is not a complete %s of the language' % (slot, ' '.join(extra[0]) if extra else '(nothing)', rnt),
                W(mm.facts.fn('MacroDetector::MacroDetector'), None, mm.facts), witness={'tokens': list(extra[0])} if extra else None)
        missing = sorted(want - got, key=lambda s: (len(s), s))
        H.check(not missing, 'slot %s: complete' % slot, 'every %s of the language up to %d tokens can fill the slot (%d)' % (rnt, N, len(want)),
                'slot %s cannot be filled with %s, a complete %s of the language (%d such sentences up to %d tokens): a macro use with it is not recognised and stays '
                'unexpanded' % (slot, ' '.join(missing[0]) if missing else '', rnt, len(missing), N),
                W(mm.facts.fn('MacroDetector::MacroDetector'), None, mm.facts), witness={'tokens': list(missing[0])} if missing else None)
    rep.extra['detector_productions'] = sum(len(v) for v in dprods.values())


def enumerate_cfg(start, prods, n):
    """sentences of length <= n of an arbitrary (possibly left-recursive) CFG: fixpoint over bounded yields"""
    nts = set(prods)
    yields = {k: set() for k in nts}
    changed = True
    while changed:
        changed = False
        for a, alts in prods.items():
            for alt in alts:
                partial = {()}
                for s in alt:
                    nxt = set()
                    opts = yields[s] if s in nts else {(s,)}
                    for p in partial:
                        for y in opts:
                            if len(p) + len(y) <= n:
                                nxt.add(p + y)
                    partial = nxt
                    if not partial:
                        break
                new = partial - yields[a]
                if new:
                    yields[a] |= new
                    changed = True
    return yields[start]
