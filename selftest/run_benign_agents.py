#!/usr/bin/env python3
"""Regression bank of behaviour-preserving refactorings written by independent sub-agents (selftest/benign_agents/*.diff).
Each was confirmed to compile and pass the 12 repository tests when it was kept (tools/eval_benign.py).  This runner
applies each to a scratch worktree of /repo (outside /repo and /verif, removed afterwards) and runs every check with
VERIF_REPO pointing at it: exit 1 is a false alarm, exit 2 a cannot-classify.
usage: run_benign_agents.py [name-substring] [-j N]"""
import glob
import json
import os
import shutil
import subprocess
import sys
from concurrent.futures import ThreadPoolExecutor

VERIF = os.path.dirname(os.path.dirname(os.path.abspath(__file__)))
SCR = '/tmp/benign_agents_run'


def sh(cmd, cwd=None):
    r = subprocess.run(cmd, shell=True, cwd=cwd, capture_output=True, text=True, errors='replace')
    return r.returncode, r.stdout + r.stderr


def one(patch):
    name = os.path.basename(patch)[:-5]
    wt = os.path.join(SCR, name)
    sh('git -C /repo worktree remove --force %s' % wt)
    shutil.rmtree(wt, ignore_errors=True)
    sh('git -C /repo worktree add -q --detach %s HEAD' % wt)
    try:
        rc, out = sh('git apply %s' % patch, cwd=wt)
        if rc != 0:
            return name, None, {'apply': out[-200:]}
        if '+++ b/Compiler/src/lexer.l' in open(patch).read():
            sh('flex --outfile=./src/lex.yy.c --header-file=./include/lex.yy.h --noline --nounistd ./src/lexer.l', cwd=os.path.join(wt, 'Compiler'))
        man = json.load(open(os.path.join(VERIF, 'MANIFEST.json')))
        env = dict(os.environ, VERIF_REPO=wt, VERIF_EVIDENCE_DIR=os.path.join(wt, '_evidence'), VERIF_NO_SELFTEST='1')
        alarms, unknown = {}, {}
        for c in man['checks']:
            p2 = c['property_id']
            r = subprocess.run([os.path.join(VERIF, 'check'), p2, '--tier', 'quick'], capture_output=True, text=True, env=env)
            if r.returncode == 1:
                alarms[p2] = [l.strip()[:200] for l in r.stdout.split('\n') if l.strip().startswith('report:')][:2]
            elif r.returncode != 0:
                unknown[p2] = [l.strip()[:200] for l in (r.stdout + r.stderr).split('\n') if 'ANALYSIS-BROKEN' in l][:2]
        return name, alarms, unknown
    finally:
        sh('git -C /repo worktree remove --force %s' % wt)
        shutil.rmtree(wt, ignore_errors=True)


def main():
    args = [a for a in sys.argv[1:] if not a.startswith('-')]
    jobs = int(sys.argv[sys.argv.index('-j') + 1]) if '-j' in sys.argv else 6
    if '-j' in sys.argv:
        args = [a for a in args if a != sys.argv[sys.argv.index('-j') + 1]]
    patches = sorted(p for p in glob.glob(os.path.join(VERIF, 'selftest', 'benign_agents', '*.diff')) if not args or args[0] in p)
    os.makedirs(SCR, exist_ok=True)
    fa = cc = 0
    with ThreadPoolExecutor(jobs) as ex:
        for name, alarms, unknown in ex.map(one, patches):
            if alarms is None:
                print('BROKEN-PATCH %s %s' % (name, unknown))
                cc += 1
                continue
            st = 'FALSE-ALARM' if alarms else ('cannot-classify' if unknown else 'quiet')
            fa += bool(alarms)
            cc += bool(unknown) and not alarms
            print('%-16s %-10s %s' % (st, name, json.dumps(alarms or unknown) if (alarms or unknown) else ''))
    shutil.rmtree(SCR, ignore_errors=True)
    sh('git -C /repo worktree prune')
    print('%d agent refactoring(s): %d false alarm(s), %d cannot-classify' % (len(patches), fa, cc))
    return 1 if fa else 0


if __name__ == '__main__':
    sys.exit(main())
