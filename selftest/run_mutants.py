#!/usr/bin/env python3
"""Mutant bank: each mutant is a textual edit of the *current* tree that still compiles and
breaks one property.  It is applied to a scratch copy (fresh temporary directory, removed
afterwards), the property's check is run against the copy (VERIF_REPO) and must exit 1 naming
the expected rule.  A mutant whose `old` text no longer occurs is reported as skipped.

usage: run_mutants.py [ID ...] [--tier quick] [--keep-going]
exit 0: all applicable mutants detected; exit 2: a mutant was missed (checker lost sensitivity)."""
import glob
import json
import os
import shutil
import subprocess
import sys
import tempfile
import concurrent.futures

HERE = os.path.dirname(os.path.abspath(__file__))
VERIF = os.path.dirname(HERE)
REPO = os.environ.get('VERIF_REPO', '/repo')


def copy_repo(dst):
    for sub in ('Compiler', 'VM', 'CLI', 'CMakeLists.txt'):
        s = os.path.join(REPO, sub)
        d = os.path.join(dst, sub)
        if os.path.isdir(s):
            shutil.copytree(s, d)
        else:
            shutil.copy(s, d)


def run_one(pid, m):
    tmp = tempfile.mkdtemp(prefix='theo-mut-')
    try:
        copy_repo(tmp)
        for ed in m['edits']:
            p = os.path.join(tmp, ed['file'])
            s = open(p).read()
            if s.count(ed['old']) != 1:
                return ('skipped', 'edit anchor occurs %d times in %s' % (s.count(ed['old']), ed['file']))
            s = s.replace(ed['old'], ed['new'])
            open(p, 'w').write(s)
        if m.get('regen_flex'):
            r0 = subprocess.run(['flex', '--outfile=./src/lex.yy.c', '--header-file=./include/lex.yy.h', '--noline', '--nounistd', './src/lexer.l'],
                                cwd=os.path.join(tmp, 'Compiler'), capture_output=True, text=True)
            if r0.returncode != 0:
                return ('skipped', 'flex failed: ' + r0.stderr[:200])
        env = dict(os.environ)
        env['VERIF_REPO'] = tmp
        env['VERIF_EVIDENCE_DIR'] = os.path.join(tmp, '_evidence')
        r = subprocess.run([os.path.join(VERIF, 'check'), pid, '--tier', 'quick'], capture_output=True, text=True, env=env)
        out = r.stdout + r.stderr
        exp = m.get('expect_rule')
        if r.returncode == 1 and 'VIOLATION property=%s' % pid in out and (not exp or (exp + ':') in out or (' ' + exp + ' ') in out):
            return ('detected', '')
        return ('MISSED', 'rc=%d; expected rule %s\n%s' % (r.returncode, exp, out[-1500:]))
    finally:
        shutil.rmtree(tmp, ignore_errors=True)


def main():
    args = [a for a in sys.argv[1:] if not a.startswith('--')]
    smoke = '--smoke' in sys.argv
    files = sorted(glob.glob(os.path.join(HERE, 'mutants', '*.json')))
    jobs = []
    for f in files:
        pid = os.path.basename(f)[:-5]
        if args and pid not in args:
            continue
        for m in json.load(open(f)):
            jobs.append((pid, m))
            if smoke:
                break
    if smoke:
        jobs = [j for j in jobs if j[0] in ('C19', 'C03', 'C02', 'C14', 'C09', 'C04')]
    missed = 0
    with concurrent.futures.ThreadPoolExecutor(max_workers=8) as ex:
        futs = [(pid, m, ex.submit(run_one, pid, m)) for pid, m in jobs]
        for pid, m, fu in futs:
            st, info = fu.result()
            print('%-9s %s %-40s %s' % (st, pid, m['name'], m.get('expect_rule', '')))
            if st == 'MISSED':
                missed += 1
                print('    ' + info.replace('\n', '\n    '))
    print('%d mutant(s), %d missed' % (len(jobs), missed))
    return 2 if missed else 0


if __name__ == '__main__':
    sys.exit(main())
