#!/usr/bin/env python3
"""Benign bank: behaviour-preserving edits (refactorings a maintainer might make).  Each is applied
to a scratch copy of the current tree and EVERY registered check is run against it; the expected
result is exit 0 (no alarm).  exit 1 = false alarm (a defect of the checker), exit 2 = the checker
could not classify the new idiom (reported, tolerated only when listed as `may_be_unknown`).

usage: run_benign.py [name-substring ...]"""
import glob
import json
import os
import shutil
import subprocess
import sys
import tempfile
import concurrent.futures

HERE = os.path.dirname(os.path.abspath(__file__))
VERIF = os.path.dirname(HERE)
sys.path.insert(0, HERE)
from run_mutants import copy_repo  # noqa: E402


def run_one(m, pids):
    tmp = tempfile.mkdtemp(prefix='theo-ben-')
    try:
        copy_repo(tmp)
        for ed in m['edits']:
            p = os.path.join(tmp, ed['file'])
            s = open(p).read()
            if s.count(ed['old']) != 1:
                return [('skipped', '-', 'edit anchor occurs %d times in %s' % (s.count(ed['old']), ed['file']))]
            open(p, 'w').write(s.replace(ed['old'], ed['new']))
        if m.get('regen_flex'):
            subprocess.run(['flex', '--outfile=./src/lex.yy.c', '--header-file=./include/lex.yy.h', '--noline', '--nounistd', './src/lexer.l'],
                           cwd=os.path.join(tmp, 'Compiler'), capture_output=True, text=True)
        env = dict(os.environ)
        env['VERIF_REPO'] = tmp
        env['VERIF_EVIDENCE_DIR'] = os.path.join(tmp, '_evidence')
        res = []
        for pid in pids:
            r = subprocess.run([os.path.join(VERIF, 'check'), pid, '--tier', 'quick'], capture_output=True, text=True, env=env)
            if r.returncode != 0:
                lines = [l for l in (r.stdout + r.stderr).split('\n') if 'report:' in l or 'ANALYSIS-BROKEN' in l or 'Error' in l]
                res.append(('FALSE-ALARM' if r.returncode == 1 else 'unknown', pid, '\n'.join(lines[:4])))
        return res or [('quiet', '-', '')]
    finally:
        shutil.rmtree(tmp, ignore_errors=True)


def main():
    sel = sys.argv[1:]
    man = json.load(open(os.path.join(VERIF, 'MANIFEST.json')))
    pids = [c['property_id'] for c in man['checks']]
    items = []
    for f in sorted(glob.glob(os.path.join(HERE, 'benign', '*.json'))):
        items.extend(json.load(open(f)))
    if sel:
        items = [m for m in items if any(s in m['name'] for s in sel)]
    bad = unk = 0
    with concurrent.futures.ThreadPoolExecutor(max_workers=8) as ex:
        futs = [(m, ex.submit(run_one, m, m.get('checks') or pids)) for m in items]
        for m, fu in futs:
            for st, pid, info in fu.result():
                print('%-12s %-4s %s' % (st, pid, m['name']))
                if info:
                    print('    ' + info.replace('\n', '\n    ')[:700])
                if st == 'FALSE-ALARM':
                    bad += 1
                if st == 'unknown':
                    unk += 1
    print('%d benign edit(s): %d false alarm(s), %d cannot-classify' % (len(items), bad, unk))
    return 1 if bad else 0


if __name__ == '__main__':
    sys.exit(main())
