#!/bin/sh
# usage: try_patch.sh <patch> <check-id>...   runs checks against a scratch worktree of /repo with the patch applied
P=$1; shift
WT=/tmp/trypatch/$$
mkdir -p /tmp/trypatch
git -C /repo worktree add -q --detach $WT HEAD
( cd $WT && git apply $P ) || { echo "patch does not apply"; }
if grep -q '^+++ b/Compiler/src/lexer\.l' $P; then ( cd $WT/Compiler && flex --outfile=./src/lex.yy.c --header-file=./include/lex.yy.h --noline --nounistd ./src/lexer.l ); fi
for c in "$@"; do VERIF_REPO=$WT VERIF_EVIDENCE_DIR=$WT/_ev VERIF_NO_SELFTEST=1 /verif/check $c 2>&1 | grep -v "^  C[0-9][0-9]\.[A-Za-z0-9]* *ok \|^   units\|^   functions"; echo "exit=$?"; done
git -C /repo worktree remove --force $WT; rm -rf $WT
