#!/usr/bin/env python3
"""(Re)generates seeded/<name>/meta.json from eval.json and the table of what each change breaks / needs,
re-runs every check against each stored patch when --recheck is given, and prints the markdown table for DESIGN.md."""
import glob
import json
import os
import subprocess
import sys
import shutil
import tempfile

VERIF = os.path.dirname(os.path.dirname(os.path.abspath(__file__)))
sys.path.insert(0, os.path.join(VERIF, 'selftest'))
NEEDS = json.load(open(os.path.join(VERIF, 'seeded', 'needs.json')))


OWN_ONLY = '--recheck-own' in sys.argv


def recheck(d):
    """apply the stored patch to a scratch copy of /repo's tracked sources and run every check (with --recheck-own: only the
    check of the property the change was aimed at; the other entries keep what the last full run found)"""
    from run_mutants import copy_repo
    tmp = tempfile.mkdtemp(prefix='theo-seed-')
    try:
        copy_repo(tmp)
        r = subprocess.run(['patch', '-p1', '-s', '-i', os.path.join(d, 'patch.diff')], cwd=tmp, capture_output=True, text=True)
        if r.returncode != 0:
            return None, None, 'patch does not apply to the current tree: ' + (r.stdout + r.stderr)[:200]
        man = json.load(open(os.path.join(VERIF, 'MANIFEST.json')))
        env = dict(os.environ)
        env['VERIF_REPO'] = tmp
        env['VERIF_EVIDENCE_DIR'] = os.path.join(tmp, '_evidence')
        caught, broken = {}, {}
        own = json.load(open(os.path.join(d, 'eval.json')))['property'][:3]
        for c in man['checks']:
            p2 = c['property_id']
            if OWN_ONLY and p2 != own:
                continue
            rr = subprocess.run([os.path.join(VERIF, 'check'), p2, '--tier', 'quick'], capture_output=True, text=True, env=env)
            if rr.returncode == 1:
                caught[p2] = [l.strip()[:220] for l in rr.stdout.split('\n') if l.strip().startswith('report:')][:3]
            elif rr.returncode == 2:
                broken[p2] = [l.strip()[:220] for l in rr.stdout.split('\n') if 'ANALYSIS-BROKEN' in l][:2]
        return caught, broken, None
    finally:
        shutil.rmtree(tmp, ignore_errors=True)


def main():
    rows = []
    dirs = [d for d in sorted(glob.glob(os.path.join(VERIF, 'seeded', 'C*-*'))) if os.path.isdir(d)]
    rechecked = {}
    only = None
    for a in sys.argv:
        if a.startswith('--only='):
            only = set(a[len('--only='):].split(','))
    if '--recheck' in sys.argv or OWN_ONLY or only:
        from concurrent.futures import ThreadPoolExecutor
        todo = [d for d in dirs if only is None or os.path.basename(d) in only]
        with ThreadPoolExecutor(8) as ex:
            for d, r in zip(todo, ex.map(recheck, todo)):
                rechecked[d] = r
    for d in dirs:
        name = os.path.basename(d)
        ev = json.load(open(os.path.join(d, 'eval.json')))
        what, needs = NEEDS.get(name, ['', ''])
        caught, broken = ev['caught_by'], ev['analysis_broken']
        mp = os.path.join(d, 'meta.json')
        if os.path.exists(mp):
            # what the last re-check with the current engines found
            try:
                old_meta = json.load(open(mp))
                caught, broken = old_meta.get('caught_by', caught), old_meta.get('analysis_broken_in', broken)
            except ValueError:
                pass
        note = None
        if d in rechecked:
            c2, b2, note = rechecked[d]
            if c2 is not None and OWN_ONLY:
                own_ = ev['property'][:3]
                caught = {k: v for k, v in caught.items() if k != own_}
                broken = {k: v for k, v in broken.items() if k != own_}
                caught.update(c2)
                broken.update(b2)
            elif c2 is not None:
                caught, broken = c2, b2
        meta = {'property': ev['property'], 'breaks': what, 'needs_to_manifest': needs,
                'origin': 'independent sub-agent given only the property text and a scratch worktree (no access to /verif)',
                'confirmed': ev['facts'],
                'what_i_ran': ['git worktree add (scratch) of /repo HEAD', 'demo.cpp built and run on the clean tree: exit 0',
                               'git apply patch.diff; cmake -G Ninja + build; ctest: 12/12 pass', 'demo.cpp built and run on the patched tree: exit != 0',
                               'every registered check with VERIF_REPO=<patched scratch tree>', 'scratch worktree and build output removed'],
                'caught_by': caught, 'analysis_broken_in': broken}
        if note:
            meta['recheck_note'] = note
        json.dump(meta, open(os.path.join(d, 'meta.json'), 'w'), indent=1)
        own = ev['property'] in caught
        rows.append('| %s | %s | %s | %s | %s |' % (name, what.replace('|', '/'), needs.replace('|', '/'), ', '.join(sorted(caught)) or '**none**', 'yes' if own else 'no'))
    print('| seed | change | needs | caught by | own check |')
    print('|------|--------|-------|-----------|-----------|')
    print('\n'.join(rows))


if __name__ == '__main__':
    main()
