// E0 "theo-facts": libTooling extractor.  Dumps, for every declaration located
// under a given root (default /repo), a structured JSON fact base: functions
// (incl. lambdas, template patterns and instantiations) with a normalised
// statement/expression tree and resolved callees/fields/enumerators, records,
// enums, typedefs, variables with static storage duration and a mutation
// verdict (ExprMutationAnalyzer) per reference to them.
//
// usage: theo_facts <out.json> <root-prefix> <source> -- <compile flags...>
//
// Nothing under the root is executed; this is a pure front-end pass.

#include "clang/AST/ASTConsumer.h"
#include "clang/AST/ASTContext.h"
#include "clang/AST/Decl.h"
#include "clang/AST/DeclCXX.h"
#include "clang/AST/DeclTemplate.h"
#include "clang/AST/Expr.h"
#include "clang/AST/ExprCXX.h"
#include "clang/AST/RecursiveASTVisitor.h"
#include "clang/AST/Stmt.h"
#include "clang/AST/StmtCXX.h"
#include "clang/Analysis/Analyses/ExprMutationAnalyzer.h"
#include "clang/Basic/Diagnostic.h"
#include "clang/Basic/SourceManager.h"
#include "clang/Frontend/CompilerInstance.h"
#include "clang/Frontend/FrontendAction.h"
#include "clang/Tooling/CompilationDatabase.h"
#include "clang/Tooling/Tooling.h"
#include "llvm/Support/JSON.h"
#include "llvm/Support/raw_ostream.h"

#include <map>
#include <set>
#include <string>
#include <vector>

using namespace clang;
namespace json = llvm::json;

static std::string gRoot = "/repo";
static std::string gOut;

namespace {

struct Diag {
  std::string file;
  unsigned line = 0;
  std::string msg;
  std::string level;
  bool in_root = false;
};
static std::vector<Diag> gDiags;

class DiagCollector : public DiagnosticConsumer {
 public:
  void HandleDiagnostic(DiagnosticsEngine::Level L,
                        const Diagnostic &Info) override {
    DiagnosticConsumer::HandleDiagnostic(L, Info);
    if (L < DiagnosticsEngine::Warning) return;
    Diag d;
    llvm::SmallString<256> buf;
    Info.FormatDiagnostic(buf);
    d.msg = std::string(buf.str());
    d.level = L >= DiagnosticsEngine::Error ? "error" : "warning";
    if (Info.hasSourceManager() && Info.getLocation().isValid()) {
      const SourceManager &SM = Info.getSourceManager();
      PresumedLoc P = SM.getPresumedLoc(SM.getExpansionLoc(Info.getLocation()));
      if (P.isValid()) {
        d.file = P.getFilename();
        d.line = P.getLine();
      }
    }
    d.in_root = d.file.rfind(gRoot, 0) == 0;
    if (d.level == "error" || d.in_root) gDiags.push_back(d);
  }
};

class Extractor {
 public:
  ASTContext &Ctx;
  const SourceManager &SM;
  PrintingPolicy PP;
  std::map<const Decl *, int> declIds;
  std::map<const Stmt *, int> stmtIds;
  int nextDecl = 1, nextStmt = 1;
  json::Array functions, records, enums, typedefs, globals;
  std::set<const Decl *> seenFuncs, seenRecords;
  std::vector<const LambdaExpr *> pendingLambdas;
  std::vector<std::string> lambdaParents;
  int recoveryCount = 0;
  // per-function scratch
  json::Array *curGlobalRefs = nullptr;
  const Stmt *curBody = nullptr;
  ExprMutationAnalyzer *curMut = nullptr;

  explicit Extractor(ASTContext &C)
      : Ctx(C), SM(C.getSourceManager()), PP(C.getLangOpts()) {
    PP.SuppressTagKeyword = true;
    PP.Bool = true;
    PP.SuppressUnwrittenScope = false;
  }

  // ---------------------------------------------------------------- helpers
  std::string fileOf(SourceLocation L) {
    if (L.isInvalid()) return "";
    PresumedLoc P = SM.getPresumedLoc(SM.getExpansionLoc(L));
    return P.isValid() ? std::string(P.getFilename()) : "";
  }
  bool inRoot(SourceLocation L) { return fileOf(L).rfind(gRoot, 0) == 0; }
  bool inRoot(const Decl *D) { return D && inRoot(D->getLocation()); }

  json::Value loc(SourceLocation L) {
    if (L.isInvalid()) return json::Array{0, 0};
    PresumedLoc P = SM.getPresumedLoc(SM.getExpansionLoc(L));
    if (!P.isValid()) return json::Array{0, 0};
    return json::Array{(int64_t)P.getLine(), (int64_t)P.getColumn()};
  }
  json::Value floc(SourceLocation L) {
    if (L.isInvalid()) return json::Array{"", 0, 0};
    PresumedLoc P = SM.getPresumedLoc(SM.getExpansionLoc(L));
    if (!P.isValid()) return json::Array{"", 0, 0};
    return json::Array{std::string(P.getFilename()), (int64_t)P.getLine(),
                       (int64_t)P.getColumn()};
  }
  int did(const Decl *D) {
    D = D->getCanonicalDecl();
    auto it = declIds.find(D);
    if (it != declIds.end()) return it->second;
    return declIds[D] = nextDecl++;
  }
  std::string ty(QualType T) { return T.isNull() ? "" : T.getAsString(PP); }
  std::string cty(QualType T) {
    return T.isNull() ? "" : T.getCanonicalType().getAsString(PP);
  }
  std::string qname(const NamedDecl *D) {
    std::string s;
    llvm::raw_string_ostream os(s);
    D->printQualifiedName(os, PP);
    return os.str();
  }
  std::string funcSig(const FunctionDecl *FD) {
    std::string s = qname(FD) + "(";
    bool first = true;
    for (const ParmVarDecl *P : FD->parameters()) {
      if (!first) s += ", ";
      first = false;
      s += cty(P->getType());
    }
    s += ")";
    if (auto *MD = dyn_cast<CXXMethodDecl>(FD))
      if (MD->isConst()) s += " const";
    return s;
  }
  std::string recordName(const RecordDecl *RD) {
    if (auto *S = dyn_cast<ClassTemplateSpecializationDecl>(RD)) {
      return cty(Ctx.getRecordType(S));
    }
    return qname(RD);
  }
  std::string lambdaId(const LambdaExpr *LE) {
    PresumedLoc P = SM.getPresumedLoc(SM.getExpansionLoc(LE->getBeginLoc()));
    std::string f = P.isValid() ? P.getFilename() : "?";
    return "lambda@" + f + ":" + std::to_string(P.isValid() ? P.getLine() : 0) +
           ":" + std::to_string(P.isValid() ? P.getColumn() : 0);
  }

  // ---------------------------------------------------------------- exprs
  const Expr *strip(const Expr *E) {
    while (E) {
      if (auto *P = dyn_cast<ParenExpr>(E)) {
        E = P->getSubExpr();
      } else if (auto *C = dyn_cast<ExprWithCleanups>(E)) {
        E = C->getSubExpr();
      } else if (auto *M = dyn_cast<MaterializeTemporaryExpr>(E)) {
        E = M->getSubExpr();
      } else if (auto *B = dyn_cast<CXXBindTemporaryExpr>(E)) {
        E = B->getSubExpr();
      } else if (auto *CE = dyn_cast<ConstantExpr>(E)) {
        E = CE->getSubExpr();
      } else if (auto *S = dyn_cast<SubstNonTypeTemplateParmExpr>(E)) {
        E = S->getReplacement();
      } else if (auto *DA = dyn_cast<CXXDefaultArgExpr>(E)) {
        E = DA->getExpr();
      } else if (auto *DI = dyn_cast<CXXDefaultInitExpr>(E)) {
        E = DI->getExpr();
      } else if (auto *IL = dyn_cast<CXXStdInitializerListExpr>(E)) {
        E = IL->getSubExpr();
      } else if (auto *IC = dyn_cast<ImplicitCastExpr>(E)) {
        switch (IC->getCastKind()) {
          case CK_LValueToRValue:
          case CK_NoOp:
          case CK_ArrayToPointerDecay:
          case CK_FunctionToPointerDecay:
          case CK_DerivedToBase:
          case CK_UncheckedDerivedToBase:
          case CK_BuiltinFnToFnPtr:
          case CK_ConstructorConversion:
          case CK_UserDefinedConversion:
            E = IC->getSubExpr();
            continue;
          default:
            return E;
        }
      } else {
        return E;
      }
    }
    return E;
  }

  json::Value refDecl(const ValueDecl *VD, json::Object &o) {
    o["name"] = isa<DecompositionDecl>(VD) ? std::string("<decomp>") : VD->getNameAsString();
    if (auto *V = dyn_cast<VarDecl>(VD)) {
      if (isa<ParmVarDecl>(V)) {
        o["dk"] = "param";
        o["d"] = did(V);
      } else if (V->hasGlobalStorage()) {
        o["dk"] = "global";
        o["q"] = qname(V);
        o["in_repo"] = inRoot(V);
        if (V->isStaticLocal()) o["d"] = did(V);
      } else {
        o["dk"] = "var";
        o["d"] = did(V);
      }
    } else if (auto *F = dyn_cast<FunctionDecl>(VD)) {
      o["dk"] = "func";
      o["q"] = qname(F);
      o["in_repo"] = inRoot(F);
    } else if (auto *EC = dyn_cast<EnumConstantDecl>(VD)) {
      o["dk"] = "enumerator";
      o["q"] = qname(EC);
      o["v"] = (int64_t)EC->getInitVal().getExtValue();
    } else if (auto *FD = dyn_cast<FieldDecl>(VD)) {
      o["dk"] = "field";
      o["q"] = qname(FD);
    } else if (auto *BD = dyn_cast<BindingDecl>(VD)) {
      o["dk"] = "binding";
      o["d"] = did(BD);
    } else {
      o["dk"] = "other";
    }
    return nullptr;
  }

  json::Array exprList(llvm::ArrayRef<const Expr *> A) {
    json::Array r;
    for (const Expr *e : A) r.push_back(expr(e));
    return r;
  }

  void calleeInfo(const FunctionDecl *FD, json::Object &o) {
    if (!FD) return;
    o["callee"] = qname(FD);
    o["callee_sig"] = funcSig(FD);
    o["callee_in_repo"] = inRoot(FD);
    json::Array pty;
    for (const ParmVarDecl *P : FD->parameters()) pty.push_back(ty(P->getType()));
    o["pty"] = std::move(pty);
    if (auto *MD = dyn_cast<CXXMethodDecl>(FD)) {
      o["method_const"] = MD->isConst();
      o["method_static"] = MD->isStatic();
      if (const CXXRecordDecl *P = MD->getParent()) {
        o["callee_rec"] = recordName(P);
        if (P->isLambda()) {
          o["callee_lambda"] = true;
          PresumedLoc PL = SM.getPresumedLoc(SM.getExpansionLoc(P->getLocation()));
          if (PL.isValid())
            o["callee_lambda_id"] = std::string("lambda@") + PL.getFilename() + ":" + std::to_string(PL.getLine()) + ":" + std::to_string(PL.getColumn());
        }
      }
    }
    o["callee_file"] = fileOf(FD->getLocation());
  }

  json::Value expr(const Expr *E0) {
    if (!E0) return nullptr;
    const Expr *E = strip(E0);
    if (!E) return nullptr;
    json::Object o;
    int id = nextStmt++;
    stmtIds[E] = id;
    if (E0 != E) stmtIds[E0] = id;
    o["sid"] = id;
    o["loc"] = loc(E->getExprLoc());
    o["ty"] = ty(E->getType());
    o["cty"] = cty(E->getType());

    if (auto *DR0 = dyn_cast<DeclRefExpr>(E)) {
      if (auto *BD = dyn_cast<BindingDecl>(DR0->getDecl())) {
        // structured binding: `auto &[a, b] = x;` - a use of `a` is a use of <x>.first
        if (const VarDecl *HV = BD->getHoldingVar()) {
          // tuple-like protocol: the binding is a hidden reference initialised with get<I>(<decomp>)
          const Expr *I0 = HV->getInit() ? strip(HV->getInit()) : nullptr;
          if (auto *CE = dyn_cast_or_null<CallExpr>(I0)) {
            const FunctionDecl *FD = CE->getDirectCallee();
            const ValueDecl *Dec = BD->getDecomposedDecl();
            if (FD && FD->getNameAsString() == "get" && FD->getTemplateSpecializationArgs() &&
                FD->getTemplateSpecializationArgs()->size() >= 1 &&
                FD->getTemplateSpecializationArgs()->get(0).getKind() == TemplateArgument::Integral && Dec) {
              int64_t idx = FD->getTemplateSpecializationArgs()->get(0).getAsIntegral().getExtValue();
              std::string dty = cty(Dec->getType().getNonReferenceType());
              if (dty.find("std::pair<") != std::string::npos && (idx == 0 || idx == 1)) {
                json::Object m;
                int id2 = nextStmt++;
                m["sid"] = id2;
                m["loc"] = loc(E->getExprLoc());
                m["ty"] = ty(E->getType());
                m["cty"] = cty(E->getType());
                m["k"] = "member";
                m["arrow"] = false;
                m["name"] = idx == 0 ? "first" : "second";
                m["q"] = std::string("std::pair::") + (idx == 0 ? "first" : "second");
                m["mk"] = "field";
                m["rec"] = "std::pair";
                json::Object b;
                b["sid"] = nextStmt++;
                b["loc"] = loc(E->getExprLoc());
                b["ty"] = ty(Dec->getType());
                b["cty"] = cty(Dec->getType());
                b["k"] = "ref";
                b["name"] = "<decomp>";
                b["dk"] = "var";
                b["d"] = did(Dec);
                m["base"] = std::move(b);
                stmtIds[E] = id2;
                return std::move(m);
              }
            }
          }
        } else if (const Expr *BE = BD->getBinding()) {
          return expr(BE);
        }
      }
    }
    if (auto *DR = dyn_cast<DeclRefExpr>(E)) {
      o["k"] = "ref";
      refDecl(DR->getDecl(), o);
      if (auto *V = dyn_cast<VarDecl>(DR->getDecl())) {
        if (V->hasGlobalStorage() && !isa<ParmVarDecl>(V) && inRoot(V) &&
            curGlobalRefs) {
          json::Object g;
          g["q"] = qname(V);
          g["loc"] = loc(DR->getExprLoc());
          bool mut = false;
          if (curMut) mut = curMut->isMutated(DR);
          g["mutated"] = mut;
          curGlobalRefs->push_back(std::move(g));
        }
      }
    } else if (auto *ME = dyn_cast<MemberExpr>(E)) {
      o["k"] = "member";
      o["arrow"] = ME->isArrow();
      o["base"] = expr(ME->getBase());
      const ValueDecl *MD = ME->getMemberDecl();
      o["name"] = MD->getNameAsString();
      o["q"] = qname(MD);
      if (auto *FD = dyn_cast<FieldDecl>(MD)) {
        o["rec"] = recordName(FD->getParent());
        o["mk"] = "field";
      } else if (isa<CXXMethodDecl>(MD)) {
        o["mk"] = "method";
      } else if (auto *SV = dyn_cast<VarDecl>(MD)) {
        // a static data member reached through an object (gs.loops): it is the one shared object all the same
        o["mk"] = "static_member";
        if (SV->hasGlobalStorage() && inRoot(SV) && curGlobalRefs) {
          json::Object g;
          g["q"] = qname(SV);
          g["loc"] = loc(ME->getExprLoc());
          bool mut = false;
          if (curMut) mut = curMut->isMutated(ME);
          g["mutated"] = mut;
          curGlobalRefs->push_back(std::move(g));
        }
      } else {
        o["mk"] = "other";
      }
    } else if (isa<CXXThisExpr>(E)) {
      o["k"] = "this";
    } else if (auto *OC = dyn_cast<CXXOperatorCallExpr>(E)) {
      o["k"] = "call";
      o["ck"] = "operator";
      o["op"] = getOperatorSpelling(OC->getOperator());
      calleeInfo(OC->getDirectCallee(), o);
      if (!OC->getDirectCallee()) o["fn"] = expr(OC->getCallee());
      bool isMember = false;
      if (auto *FD = OC->getDirectCallee())
        if (auto *MD = dyn_cast<CXXMethodDecl>(FD))
          isMember = !MD->isStatic();
      json::Array args;
      unsigned start = 0;
      if (isMember && OC->getNumArgs() > 0) {
        o["obj"] = expr(OC->getArg(0));
        start = 1;
      }
      for (unsigned i = start; i < OC->getNumArgs(); i++)
        args.push_back(expr(OC->getArg(i)));
      o["args"] = std::move(args);
    } else if (auto *MC = dyn_cast<CXXMemberCallExpr>(E)) {
      o["k"] = "call";
      o["ck"] = "method";
      calleeInfo(MC->getMethodDecl(), o);
      o["obj"] = expr(MC->getImplicitObjectArgument());
      if (auto *ME = dyn_cast<MemberExpr>(strip(MC->getCallee())))
        o["arrow"] = ME->isArrow();
      json::Array args;
      for (const Expr *a : MC->arguments()) args.push_back(expr(a));
      o["args"] = std::move(args);
    } else if (auto *CE = dyn_cast<CallExpr>(E)) {
      o["k"] = "call";
      o["ck"] = "func";
      if (const FunctionDecl *FD = CE->getDirectCallee())
        calleeInfo(FD, o);
      else
        o["fn"] = expr(CE->getCallee());
      json::Array args;
      for (const Expr *a : CE->arguments()) args.push_back(expr(a));
      o["args"] = std::move(args);
    } else if (auto *CC = dyn_cast<CXXConstructExpr>(E)) {
      o["k"] = "construct";
      const CXXConstructorDecl *CD = CC->getConstructor();
      o["ctor"] = funcSig(CD);
      o["rec"] = recordName(CD->getParent());
      o["ctor_in_repo"] = inRoot(CD);
      o["copy_or_move"] = CD->isCopyOrMoveConstructor();
      o["elidable"] = CC->isElidable();
      o["list_init"] = CC->isListInitialization();
      o["temporary"] = isa<CXXTemporaryObjectExpr>(CC);
      json::Array pty;
      for (const ParmVarDecl *P : CD->parameters()) pty.push_back(ty(P->getType()));
      o["pty"] = std::move(pty);
      json::Array args;
      for (const Expr *a : CC->arguments()) args.push_back(expr(a));
      o["args"] = std::move(args);
    } else if (auto *IL0 = dyn_cast<InitListExpr>(E)) {
      const InitListExpr *IL =
          IL0->isSemanticForm() || !IL0->getSemanticForm()
              ? IL0
              : IL0->getSemanticForm();
      o["k"] = "init";
      json::Array fields;
      const RecordDecl *RD = nullptr;
      if (const RecordType *RT = IL->getType()->getAs<RecordType>())
        RD = RT->getDecl();
      if (RD && RD->isUnion()) {
        o["rec"] = recordName(RD);
        if (const FieldDecl *F = IL->getInitializedFieldInUnion()) {
          if (IL->getNumInits() > 0)
            fields.push_back(
                json::Array{F->getNameAsString(), expr(IL->getInit(0))});
        }
      } else if (RD && !isa<CXXRecordDecl>(RD)) {
        o["rec"] = recordName(RD);
      }
      if (RD && !RD->isUnion()) {
        o["rec"] = recordName(RD);
        unsigned i = 0;
        if (auto *CRD = dyn_cast<CXXRecordDecl>(RD))
          i += CRD->getNumBases();  // base initialisers first; none in libtheo
        unsigned bi = 0;
        for (; bi < i && bi < IL->getNumInits(); bi++)
          fields.push_back(json::Array{"<base>", expr(IL->getInit(bi))});
        for (const FieldDecl *F : RD->fields()) {
          if (F->isUnnamedBitfield()) continue;
          if (i >= IL->getNumInits()) break;
          fields.push_back(
              json::Array{F->getNameAsString(), expr(IL->getInit(i))});
          i++;
        }
      } else if (!RD) {
        json::Array elems;
        for (unsigned i = 0; i < IL->getNumInits(); i++)
          elems.push_back(expr(IL->getInit(i)));
        o["elems"] = std::move(elems);
      }
      o["fields"] = std::move(fields);
    } else if (isa<ImplicitValueInitExpr>(E) || isa<CXXScalarValueInitExpr>(E)) {
      o["k"] = "zeroinit";
    } else if (auto *BO = dyn_cast<BinaryOperator>(E)) {
      if (BO->isAssignmentOp()) {
        o["k"] = "assign";
      } else {
        o["k"] = "bin";
      }
      o["op"] = BO->getOpcodeStr().str();
      o["l"] = expr(BO->getLHS());
      o["r"] = expr(BO->getRHS());
      if (auto *CA = dyn_cast<CompoundAssignOperator>(BO)) {
        o["comp_ty"] = cty(CA->getComputationResultType());
      }
    } else if (auto *RW = dyn_cast<CXXRewrittenBinaryOperator>(E)) {
      // C++20: a < b rewritten through operator<=>; keep the operator as written
      auto DF = RW->getDecomposedForm();
      o["k"] = "bin";
      o["op"] = BinaryOperator::getOpcodeStr(DF.Opcode).str();
      o["l"] = expr(DF.LHS);
      o["r"] = expr(DF.RHS);
      o["rewritten"] = true;
    } else if (auto *UO = dyn_cast<UnaryOperator>(E)) {
      o["k"] = "un";
      o["op"] = UnaryOperator::getOpcodeStr(UO->getOpcode()).str();
      o["postfix"] = UO->isPostfix();
      o["e"] = expr(UO->getSubExpr());
    } else if (auto *CO = dyn_cast<ConditionalOperator>(E)) {
      o["k"] = "cond";
      o["c"] = expr(CO->getCond());
      o["t"] = expr(CO->getTrueExpr());
      o["e"] = expr(CO->getFalseExpr());
    } else if (auto *IL = dyn_cast<IntegerLiteral>(E)) {
      o["k"] = "int";
      o["v"] = (int64_t)IL->getValue().getLimitedValue();
    } else if (auto *SL = dyn_cast<StringLiteral>(E)) {
      o["k"] = "str";
      o["v"] = SL->getCharByteWidth() == 1 ? SL->getString().str() : "<wide>";
    } else if (auto *BL = dyn_cast<CXXBoolLiteralExpr>(E)) {
      o["k"] = "bool";
      o["v"] = BL->getValue();
    } else if (auto *CL = dyn_cast<CharacterLiteral>(E)) {
      o["k"] = "char";
      o["v"] = (int64_t)CL->getValue();
    } else if (isa<CXXNullPtrLiteralExpr>(E) || isa<GNUNullExpr>(E)) {
      o["k"] = "null";
    } else if (auto *FL = dyn_cast<FloatingLiteral>(E)) {
      o["k"] = "float";
      o["v"] = FL->getValueAsApproximateDouble();
    } else if (auto *IC = dyn_cast<ImplicitCastExpr>(E)) {
      if (IC->getCastKind() == CK_NullToPointer) {
        o["k"] = "null";
      } else {
        o["k"] = "cast";
        o["ck"] = IC->getCastKindName();
        o["implicit"] = true;
        o["from"] = cty(IC->getSubExpr()->getType());
        o["e"] = expr(IC->getSubExpr());
      }
    } else if (auto *EC = dyn_cast<ExplicitCastExpr>(E)) {
      o["k"] = "cast";
      o["ck"] = EC->getCastKindName();
      o["implicit"] = false;
      o["from"] = cty(EC->getSubExpr()->getType());
      o["e"] = expr(EC->getSubExpr());
    } else if (auto *LE = dyn_cast<LambdaExpr>(E)) {
      o["k"] = "lambda";
      o["fn"] = lambdaId(LE);
      json::Array caps;
      for (const LambdaCapture &C : LE->captures()) {
        json::Object c;
        c["byref"] = C.getCaptureKind() == LCK_ByRef;
        if (C.capturesVariable()) {
          c["name"] = C.getCapturedVar()->getNameAsString();
          c["d"] = did(C.getCapturedVar());
        } else if (C.capturesThis()) {
          c["name"] = "this";
        }
        caps.push_back(std::move(c));
      }
      o["captures"] = std::move(caps);
      pendingLambdas.push_back(LE);
    } else if (auto *NE = dyn_cast<CXXNewExpr>(E)) {
      o["k"] = "new";
      o["alloc_ty"] = cty(NE->getAllocatedType());
      o["array"] = NE->isArray();
      if (NE->getInitializer()) o["init"] = expr(NE->getInitializer());
    } else if (auto *DE = dyn_cast<CXXDeleteExpr>(E)) {
      o["k"] = "delete";
      o["array"] = DE->isArrayForm();
      o["e"] = expr(DE->getArgument());
    } else if (auto *AS = dyn_cast<ArraySubscriptExpr>(E)) {
      o["k"] = "index";
      o["base"] = expr(AS->getBase());
      o["idx"] = expr(AS->getIdx());
    } else if (isa<RecoveryExpr>(E)) {
      o["k"] = "recovery";
      recoveryCount++;
    } else if (auto *UL = dyn_cast<UnresolvedLookupExpr>(E)) {
      o["k"] = "unresolved";
      o["name"] = UL->getName().getAsString();
    } else if (auto *UM = dyn_cast<UnresolvedMemberExpr>(E)) {
      o["k"] = "unresolved";
      o["name"] = UM->getMemberName().getAsString();
      if (!UM->isImplicitAccess()) o["base"] = expr(UM->getBase());
    } else if (auto *DM = dyn_cast<CXXDependentScopeMemberExpr>(E)) {
      o["k"] = "unresolved";
      o["name"] = DM->getMember().getAsString();
      if (!DM->isImplicitAccess()) o["base"] = expr(DM->getBase());
    } else if (auto *DS = dyn_cast<DependentScopeDeclRefExpr>(E)) {
      o["k"] = "unresolved";
      o["name"] = DS->getDeclName().getAsString();
    } else if (auto *SO = dyn_cast<UnaryExprOrTypeTraitExpr>(E)) {
      o["k"] = "sizeof";
      Expr::EvalResult R;
      if (!SO->isValueDependent() && SO->EvaluateAsInt(R, Ctx))
        o["v"] = (int64_t)R.Val.getInt().getExtValue();
    } else {
      o["k"] = "other";
      o["cls"] = E->getStmtClassName();
      json::Array ch;
      for (const Stmt *c : E->children())
        if (auto *ce = dyn_cast_or_null<Expr>(c)) ch.push_back(expr(ce));
      o["children"] = std::move(ch);
    }
    return std::move(o);
  }

  // ---------------------------------------------------------------- stmts
  json::Value varDecl(const VarDecl *V) {
    json::Object o;
    o["d"] = did(V);
    o["name"] = isa<DecompositionDecl>(V) ? std::string("<decomp>") : V->getNameAsString();
    o["ty"] = ty(V->getType());
    o["cty"] = cty(V->getType());
    o["loc"] = loc(V->getLocation());
    o["static_local"] = V->isStaticLocal();
    o["tls"] = V->getTLSKind() != VarDecl::TLS_None;
    o["const"] = V->getType().isConstQualified();
    o["is_ref"] = V->getType()->isReferenceType();
    if (V->isStaticLocal()) o["q"] = qname(V);
    if (V->hasInit()) {
      o["init"] = expr(V->getInit());
      o["init_style"] = V->getInitStyle() == VarDecl::CInit      ? "c"
                        : V->getInitStyle() == VarDecl::CallInit ? "call"
                                                                 : "list";
    } else {
      o["init"] = nullptr;
    }
    return std::move(o);
  }

  void caseLabel(const SwitchCase *SC, json::Array &labels) {
    if (isa<DefaultStmt>(SC)) {
      labels.push_back("default");
      return;
    }
    auto *CS = cast<CaseStmt>(SC);
    json::Object l;
    const Expr *L = CS->getLHS();
    const Expr *S = L;
    // look through casts/constant wrappers for an enumerator
    while (S) {
      const Expr *N = strip(S);
      if (auto *C = dyn_cast<CastExpr>(N)) {
        S = C->getSubExpr();
        continue;
      }
      S = N;
      break;
    }
    if (auto *DR = dyn_cast_or_null<DeclRefExpr>(S)) {
      if (auto *EC = dyn_cast<EnumConstantDecl>(DR->getDecl())) {
        l["enumerator"] = qname(EC);
        l["name"] = EC->getNameAsString();
      }
    }
    Expr::EvalResult R;
    if (L && !L->isValueDependent() && L->EvaluateAsInt(R, Ctx))
      l["v"] = (int64_t)R.Val.getInt().getExtValue();
    l["loc"] = loc(CS->getBeginLoc());
    labels.push_back(std::move(l));
  }

  // flatten the body of a switch into cases
  void switchBody(const Stmt *Body, json::Array &cases) {
    std::vector<const Stmt *> items;
    if (auto *CS = dyn_cast_or_null<CompoundStmt>(Body))
      for (const Stmt *s : CS->body()) items.push_back(s);
    else if (Body)
      items.push_back(Body);
    json::Array curLabels;
    json::Array curStmts;
    bool have = false;
    auto flush = [&]() {
      if (!have) return;
      json::Object c;
      c["labels"] = std::move(curLabels);
      c["s"] = std::move(curStmts);
      cases.push_back(std::move(c));
      curLabels = json::Array();
      curStmts = json::Array();
      have = false;
    };
    for (const Stmt *s : items) {
      const Stmt *cur = s;
      bool startedHere = false;
      while (auto *SC = dyn_cast_or_null<SwitchCase>(cur)) {
        if (!startedHere && have && !curStmts.empty()) flush();
        if (!startedHere && have && curStmts.empty()) { /* merge labels */ }
        caseLabel(SC, curLabels);
        have = true;
        startedHere = true;
        cur = SC->getSubStmt();
      }
      if (cur) {
        if (!have) {
          // statement before any label: unreachable, keep under pseudo label
          curLabels.push_back("<pre>");
          have = true;
        }
        curStmts.push_back(stmt(cur));
      }
    }
    flush();
  }

  json::Value stmt(const Stmt *S) {
    if (!S) return nullptr;
    if (auto *E = dyn_cast<Expr>(S)) {
      json::Object o;
      o["k"] = "expr";
      o["loc"] = loc(E->getExprLoc());
      o["e"] = expr(E);
      o["sid"] = nextStmt++;
      return std::move(o);
    }
    json::Object o;
    int id = nextStmt++;
    stmtIds[S] = id;
    o["sid"] = id;
    o["loc"] = loc(S->getBeginLoc());
    if (auto *CS = dyn_cast<CompoundStmt>(S)) {
      o["k"] = "block";
      json::Array a;
      for (const Stmt *c : CS->body()) a.push_back(stmt(c));
      o["s"] = std::move(a);
    } else if (auto *IS = dyn_cast<IfStmt>(S)) {
      o["k"] = "if";
      if (IS->getInit()) o["init"] = stmt(IS->getInit());
      if (const VarDecl *V = IS->getConditionVariable()) o["var"] = varDecl(V);
      o["c"] = expr(IS->getCond());
      o["t"] = stmt(IS->getThen());
      o["e"] = stmt(IS->getElse());
      o["constexpr"] = IS->isConstexpr();
    } else if (auto *SS = dyn_cast<SwitchStmt>(S)) {
      o["k"] = "switch";
      if (SS->getInit()) o["init"] = stmt(SS->getInit());
      o["c"] = expr(SS->getCond());
      json::Array cases;
      switchBody(SS->getBody(), cases);
      o["cases"] = std::move(cases);
    } else if (auto *FS = dyn_cast<ForStmt>(S)) {
      o["k"] = "for";
      o["init"] = stmt(FS->getInit());
      o["c"] = expr(FS->getCond());
      o["inc"] = FS->getInc() ? expr(FS->getInc()) : json::Value(nullptr);
      o["body"] = stmt(FS->getBody());
    } else if (auto *WS = dyn_cast<WhileStmt>(S)) {
      o["k"] = "while";
      o["c"] = expr(WS->getCond());
      o["body"] = stmt(WS->getBody());
    } else if (auto *DS = dyn_cast<DoStmt>(S)) {
      o["k"] = "do";
      o["c"] = expr(DS->getCond());
      o["body"] = stmt(DS->getBody());
    } else if (auto *RF = dyn_cast<CXXForRangeStmt>(S)) {
      o["k"] = "rangefor";
      o["var"] = varDecl(RF->getLoopVariable());
      o["range"] = expr(RF->getRangeInit());
      o["body"] = stmt(RF->getBody());
    } else if (auto *RS = dyn_cast<ReturnStmt>(S)) {
      o["k"] = "return";
      o["e"] = RS->getRetValue() ? expr(RS->getRetValue()) : json::Value(nullptr);
    } else if (isa<BreakStmt>(S)) {
      o["k"] = "break";
    } else if (isa<ContinueStmt>(S)) {
      o["k"] = "continue";
    } else if (isa<NullStmt>(S)) {
      o["k"] = "empty";
    } else if (auto *DS2 = dyn_cast<DeclStmt>(S)) {
      o["k"] = "decl";
      json::Array vars;
      for (const Decl *D : DS2->decls()) {
        if (auto *V = dyn_cast<VarDecl>(D)) {
          vars.push_back(varDecl(V));
          if (V->isStaticLocal() && inRoot(V)) recordGlobal(V);
        }
      }
      o["vars"] = std::move(vars);
    } else if (auto *GS = dyn_cast<GotoStmt>(S)) {
      o["k"] = "goto";
      o["label"] = GS->getLabel()->getNameAsString();
    } else if (auto *LS = dyn_cast<LabelStmt>(S)) {
      o["k"] = "label";
      o["label"] = LS->getDecl()->getNameAsString();
      o["s"] = stmt(LS->getSubStmt());
    } else if (auto *AS = dyn_cast<AttributedStmt>(S)) {
      return stmt(AS->getSubStmt());
    } else if (auto *TS = dyn_cast<CXXTryStmt>(S)) {
      o["k"] = "try";
      o["body"] = stmt(TS->getTryBlock());
      json::Array hs;
      for (unsigned i = 0; i < TS->getNumHandlers(); i++)
        hs.push_back(stmt(TS->getHandler(i)->getHandlerBlock()));
      o["handlers"] = std::move(hs);
    } else if (auto *SC = dyn_cast<SwitchCase>(S)) {
      // case label outside the normalised position (nested in a block)
      o["k"] = "stray_case";
      json::Array labels;
      caseLabel(SC, labels);
      o["labels"] = std::move(labels);
      o["s"] = stmt(SC->getSubStmt());
    } else {
      o["k"] = "other_stmt";
      o["cls"] = S->getStmtClassName();
      json::Array ch;
      for (const Stmt *c : S->children()) ch.push_back(stmt(c));
      o["children"] = std::move(ch);
    }
    return std::move(o);
  }

  // ---------------------------------------------------------------- decls
  void recordGlobal(const VarDecl *V) {
    json::Object g;
    g["q"] = qname(V);
    g["name"] = V->getNameAsString();
    g["ty"] = ty(V->getType());
    g["cty"] = cty(V->getType());
    g["loc"] = floc(V->getLocation());
    g["const"] = V->getType().isConstQualified() ||
                 (V->getType()->isArrayType() &&
                  Ctx.getBaseElementType(V->getType()).isConstQualified());
    g["constexpr"] = V->isConstexpr();
    g["static_local"] = V->isStaticLocal();
    g["tls"] = V->getTLSKind() != VarDecl::TLS_None;
    g["static_member"] = V->isStaticDataMember();
    g["storage"] = V->getStorageClass() == SC_Static   ? "static"
                   : V->getStorageClass() == SC_Extern ? "extern"
                                                       : "none";
    g["is_def"] = V->isThisDeclarationADefinition() == VarDecl::Definition;
    g["has_init"] = V->hasInit();
    g["pointer_like"] = V->getType()->isPointerType() ||
                        V->getType()->isReferenceType();
    if (V->hasInit() && (V->getType().isConstQualified() || V->isConstexpr()) && V->getType()->isIntegralOrEnumerationType()) {
      Expr::EvalResult R;
      if (!V->getInit()->isValueDependent() && V->getInit()->EvaluateAsInt(R, Ctx))
        g["const_value"] = (int64_t)R.Val.getInt().getExtValue();
    }
    if (V->hasInit() && (V->getType().isConstQualified() || V->isConstexpr()) && !V->getType()->isIntegralOrEnumerationType()) {
      // a constant initialised from exactly one string literal (const char* or std::string)
      std::vector<const StringLiteral *> lits;
      std::vector<const Stmt *> work{V->getInit()};
      unsigned others = 0;
      while (!work.empty()) {
        const Stmt *S = work.back();
        work.pop_back();
        if (!S) continue;
        if (auto *SL = dyn_cast<StringLiteral>(S)) { lits.push_back(SL); continue; }
        if (isa<CallExpr>(S) && !isa<CXXOperatorCallExpr>(S)) others++;
        if (isa<BinaryOperator>(S) || isa<CXXOperatorCallExpr>(S) || isa<DeclRefExpr>(S)) others++;
        for (const Stmt *C : S->children()) work.push_back(C);
      }
      if (lits.size() == 1 && others == 0 && lits[0]->getCharByteWidth() == 1)
        g["const_str"] = lits[0]->getString().str();
    }
    globals.push_back(std::move(g));
  }

  void emitFunctionCommon(json::Object &f, const FunctionDecl *FD,
                          const Stmt *Body) {
    json::Array params;
    for (const ParmVarDecl *P : FD->parameters()) {
      json::Object p;
      p["d"] = did(P);
      p["name"] = P->getNameAsString();
      p["ty"] = ty(P->getType());
      p["cty"] = cty(P->getType());
      params.push_back(std::move(p));
    }
    f["params"] = std::move(params);
    f["ret"] = ty(FD->getReturnType());
    f["ret_c"] = cty(FD->getReturnType());
    f["loc"] = floc(FD->getLocation());
    f["end_line"] = (int64_t)SM.getPresumedLoc(SM.getExpansionLoc(FD->getEndLoc()))
                        .getLine();
    json::Array grefs;
    curGlobalRefs = &grefs;
    ExprMutationAnalyzer *savedMut = curMut;
    ExprMutationAnalyzer Mut(*Body, Ctx);
    bool dependent = FD->isDependentContext();
    curMut = dependent ? nullptr : &Mut;
    int rc0 = recoveryCount;
    if (auto *CD = dyn_cast<CXXConstructorDecl>(FD)) {
      json::Array inits;
      for (const CXXCtorInitializer *I : CD->inits()) {
        json::Object i;
        if (I->isAnyMemberInitializer() && I->getAnyMember())
          i["field"] = I->getAnyMember()->getNameAsString();
        else if (I->isBaseInitializer())
          i["field"] = "<base>";
        i["written"] = I->isWritten();
        i["init"] = expr(I->getInit());
        inits.push_back(std::move(i));
      }
      f["ctor_inits"] = std::move(inits);
    }
    f["body"] = stmt(Body);
    f["recovery"] = recoveryCount - rc0;
    curMut = savedMut;
    curGlobalRefs = nullptr;
    f["global_refs"] = std::move(grefs);
  }

  void emitFunction(const FunctionDecl *FD) {
    if (!FD->doesThisDeclarationHaveABody()) return;
    if (!inRoot(FD)) return;
    if (seenFuncs.count(FD)) return;
    seenFuncs.insert(FD);
    if (auto *MD = dyn_cast<CXXMethodDecl>(FD))
      if (MD->getParent()->isLambda()) return;  // emitted through LambdaExpr
    if (FD->isDefaulted() && !FD->isUserProvided()) return;
    json::Object f;
    f["q"] = qname(FD);
    f["sig"] = funcSig(FD);
    f["name"] = FD->getNameAsString();
    f["kind"] = isa<CXXConstructorDecl>(FD)  ? "ctor"
                : isa<CXXDestructorDecl>(FD) ? "dtor"
                : isa<CXXMethodDecl>(FD)     ? "method"
                                             : "function";
    if (auto *MD = dyn_cast<CXXMethodDecl>(FD)) {
      f["rec"] = recordName(MD->getParent());
      f["method_const"] = MD->isConst();
      f["method_static"] = MD->isStatic();
    }
    f["static"] = FD->getStorageClass() == SC_Static;
    f["tmpl"] = FD->isDependentContext() ? "pattern"
                : FD->isTemplateInstantiation() ? "inst"
                                                : "none";
    emitFunctionCommon(f, FD, FD->getBody());
    functions.push_back(std::move(f));
    drainLambdas(qnameSigFor(FD));
  }

  std::string qnameSigFor(const FunctionDecl *FD) { return funcSig(FD); }

  void drainLambdas(const std::string &parent) {
    while (!pendingLambdas.empty()) {
      const LambdaExpr *LE = pendingLambdas.back();
      pendingLambdas.pop_back();
      const CXXMethodDecl *Op = LE->getCallOperator();
      if (!Op || seenFuncs.count(Op)) continue;
      seenFuncs.insert(Op);
      const Stmt *Body = LE->getBody();
      if (!Body) continue;
      json::Object f;
      std::string id = lambdaId(LE);
      f["q"] = id;
      f["sig"] = id;
      f["name"] = "operator()";
      f["kind"] = "lambda";
      f["parent"] = parent;
      f["tmpl"] = Op->isDependentContext() ? "pattern" : "none";
      f["generic"] = LE->isGenericLambda();
      emitFunctionCommon(f, Op, Body);
      functions.push_back(std::move(f));
    }
  }

  void emitRecord(const CXXRecordDecl *RD) {
    if (!RD->isThisDeclarationADefinition()) return;
    if (!inRoot(RD)) return;
    if (RD->isLambda()) return;
    if (seenRecords.count(RD)) return;
    seenRecords.insert(RD);
    json::Object r;
    r["q"] = recordName(RD);
    r["name"] = RD->getNameAsString();
    r["loc"] = floc(RD->getLocation());
    r["union"] = RD->isUnion();
    r["anon"] = RD->isAnonymousStructOrUnion() || RD->getNameAsString().empty();
    r["tmpl"] = RD->isDependentContext()
                    ? "pattern"
                    : isa<ClassTemplateSpecializationDecl>(RD) ? "inst" : "none";
    json::Array fields;
    for (const FieldDecl *F : RD->fields()) {
      json::Object fo;
      fo["name"] = F->getNameAsString();
      fo["q"] = qname(F);
      fo["ty"] = ty(F->getType());
      fo["cty"] = cty(F->getType());
      fo["access"] = F->getAccess() == AS_public      ? "public"
                     : F->getAccess() == AS_protected ? "protected"
                                                      : "private";
      QualType T = F->getType();
      fo["is_ptr"] = T->isPointerType();
      fo["is_ref"] = T->isReferenceType();
      if (F->isBitField()) fo["bits"] = (int64_t)F->getBitWidthValue(Ctx);
      if (F->hasInClassInitializer() && F->getInClassInitializer())
        fo["init"] = expr(F->getInClassInitializer());
      if (const RecordType *RT = T->getAs<RecordType>())
        fo["rec"] = recordName(RT->getDecl());
      fields.push_back(std::move(fo));
    }
    r["fields"] = std::move(fields);
    json::Array methods;
    for (const CXXMethodDecl *M : RD->methods()) {
      if (M->isImplicit()) continue;
      json::Object m;
      m["sig"] = funcSig(M);
      m["name"] = M->getNameAsString();
      m["ret"] = ty(M->getReturnType());
      m["const"] = M->isConst();
      m["static"] = M->isStatic();
      m["access"] = M->getAccess() == AS_public      ? "public"
                    : M->getAccess() == AS_protected ? "protected"
                                                     : "private";
      methods.push_back(std::move(m));
    }
    r["methods"] = std::move(methods);
    json::Array bases;
    for (const CXXBaseSpecifier &B : RD->bases()) bases.push_back(cty(B.getType()));
    r["bases"] = std::move(bases);
    records.push_back(std::move(r));
  }

  void emitEnum(const EnumDecl *ED) {
    if (!ED->isThisDeclarationADefinition() || !inRoot(ED)) return;
    json::Object e;
    e["q"] = qname(ED);
    e["scoped"] = ED->isScoped();
    e["loc"] = floc(ED->getLocation());
    json::Array en;
    for (const EnumConstantDecl *C : ED->enumerators())
      en.push_back(json::Array{C->getNameAsString(),
                               (int64_t)C->getInitVal().getExtValue()});
    e["enumerators"] = std::move(en);
    enums.push_back(std::move(e));
  }
};

class Visitor : public RecursiveASTVisitor<Visitor> {
 public:
  Extractor &X;
  explicit Visitor(Extractor &x) : X(x) {}
  bool shouldVisitTemplateInstantiations() const { return true; }
  bool shouldVisitImplicitCode() const { return false; }
  bool VisitFunctionDecl(FunctionDecl *FD) {
    X.emitFunction(FD);
    return true;
  }
  bool VisitCXXRecordDecl(CXXRecordDecl *RD) {
    X.emitRecord(RD);
    return true;
  }
  bool VisitEnumDecl(EnumDecl *ED) {
    X.emitEnum(ED);
    return true;
  }
  bool VisitTypedefNameDecl(TypedefNameDecl *TD) {
    if (!X.inRoot(TD)) return true;
    json::Object t;
    t["q"] = X.qname(TD);
    t["ty"] = X.ty(TD->getUnderlyingType());
    t["cty"] = X.cty(TD->getUnderlyingType());
    X.typedefs.push_back(std::move(t));
    return true;
  }
  bool VisitVarDecl(VarDecl *V) {
    if (isa<ParmVarDecl>(V)) return true;
    if (!V->hasGlobalStorage() || V->isStaticLocal()) return true;
    if (!X.inRoot(V)) return true;
    X.recordGlobal(V);
    return true;
  }
};

class Consumer : public ASTConsumer {
 public:
  std::string unit;
  explicit Consumer(std::string u) : unit(std::move(u)) {}
  void HandleTranslationUnit(ASTContext &Ctx) override {
    Extractor X(Ctx);
    Visitor V(X);
    V.TraverseDecl(Ctx.getTranslationUnitDecl());
    json::Object root;
    root["unit"] = unit;
    root["root"] = gRoot;
    json::Array diags;
    for (const Diag &d : gDiags) {
      json::Object o;
      o["file"] = d.file;
      o["line"] = (int64_t)d.line;
      o["msg"] = d.msg;
      o["level"] = d.level;
      o["in_root"] = d.in_root;
      diags.push_back(std::move(o));
    }
    root["diagnostics"] = std::move(diags);
    root["functions"] = std::move(X.functions);
    root["records"] = std::move(X.records);
    root["enums"] = std::move(X.enums);
    root["typedefs"] = std::move(X.typedefs);
    root["globals"] = std::move(X.globals);
    root["recovery_exprs"] = X.recoveryCount;
    std::error_code EC;
    llvm::raw_fd_ostream os(gOut, EC);
    if (EC) {
      llvm::errs() << "cannot write " << gOut << ": " << EC.message() << "\n";
      return;
    }
    os << json::Value(std::move(root)) << "\n";
  }
};

class Action : public ASTFrontendAction {
 public:
  std::unique_ptr<ASTConsumer> CreateASTConsumer(CompilerInstance &CI,
                                                 llvm::StringRef File) override {
    CI.getDiagnostics().setClient(new DiagCollector(), /*ShouldOwn=*/true);
    CI.getDiagnostics().setErrorLimit(0);
    return std::make_unique<Consumer>(File.str());
  }
};

}  // namespace

int main(int argc, const char **argv) {
  if (argc < 5) {
    llvm::errs() << "usage: theo_facts <out.json> <root> <source> -- <flags>\n";
    return 2;
  }
  gOut = argv[1];
  gRoot = argv[2];
  std::string src = argv[3];
  std::vector<std::string> flags;
  int i = 4;
  if (std::string(argv[i]) == "--") i++;
  for (; i < argc; i++) flags.push_back(argv[i]);
  clang::tooling::FixedCompilationDatabase DB(".", flags);
  clang::tooling::ClangTool Tool(DB, {src});
  Tool.setPrintErrorMessage(false);
  int rc = Tool.run(clang::tooling::newFrontendActionFactory<Action>().get());
  // rc != 0 when the front end reported errors; the JSON is still written and
  // carries the diagnostics, the engines decide whether they are tolerable.
  (void)rc;
  return 0;
}
