#!/usr/bin/env python3
"""Confirms a seeded change produced by an independent sub-agent and records which checks catch it.

usage: eval_seed.py <ID> <N> [--keep <name>] [--own]   (--own: run only the check of the seed's own property)
 reads /tmp/seed/<ID>-out/patchN.diff and demoN.cpp
 1. scratch worktree of /repo HEAD (under /tmp/evalseed), demo on the clean tree must exit 0
 2. apply the patch, build with cmake/ninja, all 12 ctest tests must pass, demo must exit non-zero
 3. run every registered check against the patched scratch tree (VERIF_REPO) and list the ones that report a VIOLATION
 4. with --keep: store patch.diff, demo.cpp, meta.json under /verif/seeded/<name>/
The scratch worktree and its build output are removed afterwards."""
import json
import os
import shutil
import subprocess
import sys

VERIF = os.path.dirname(os.path.dirname(os.path.abspath(__file__)))


def sh(cmd, cwd=None, env=None, timeout=900):
    r = subprocess.run(cmd, shell=True, cwd=cwd, env=env, capture_output=True, text=True, errors='replace', timeout=timeout)
    return r.returncode, r.stdout + r.stderr


def main():
    pid, n = sys.argv[1], sys.argv[2]
    keep = sys.argv[sys.argv.index('--keep') + 1] if '--keep' in sys.argv else None
    src = '/tmp/seed/%s-out' % pid
    patch = os.path.join(src, 'patch%s.diff' % n)
    demo = os.path.join(src, 'demo%s.cpp' % n)
    wt = '/tmp/evalseed/%s-%s' % (pid, n)
    os.makedirs('/tmp/evalseed', exist_ok=True)
    sh('git -C /repo worktree remove --force %s' % wt)
    shutil.rmtree(wt, ignore_errors=True)
    rc, out = sh('git -C /repo worktree add -q --detach %s HEAD' % wt)
    res = {'property': pid, 'n': n, 'facts': {}}
    try:
        build_demo = ('g++ -std=gnu++20 -O0 -g -I. -ICompiler/include %s Compiler/src/*.cpp Compiler/src/ParserGenerator/*.cpp '
                      '-x c++ Compiler/src/lex.yy.c -x none VM/src/*.cpp -pthread -o %s/demo_bin' % (demo, wt))
        rc, out = sh(build_demo, cwd=wt)
        if rc != 0:
            res['facts']['demo_builds_clean'] = False
            print(json.dumps(res), out[-400:])
            return 1
        rc, out = sh('%s/demo_bin' % wt, cwd=wt, timeout=300)
        res['facts']['demo_passes_on_clean_tree'] = rc == 0
        rc, out = sh('git apply %s' % patch, cwd=wt)
        res['facts']['patch_applies'] = rc == 0
        if rc != 0:
            print(json.dumps(res), out[-300:])
            return 1
        if '+++ b/Compiler/src/lexer.l' in open(patch).read():
            sh('flex --outfile=./src/lex.yy.c --header-file=./include/lex.yy.h --noline --nounistd ./src/lexer.l', cwd=os.path.join(wt, 'Compiler'))
        rc, out = sh('cmake -G Ninja -S . -B _build >/dev/null && cmake --build _build -j8', cwd=wt)
        res['facts']['compiles'] = rc == 0
        rc, out = sh('ctest --test-dir _build -j8', cwd=wt)
        res['facts']['tests_pass'] = rc == 0 and '100% tests passed' in out
        # the cmake build regenerates lex.yy.c in the source tree when flex is installed: put the patched sources back
        sh('git checkout -- . && git apply %s' % patch, cwd=wt)
        if '+++ b/Compiler/src/lexer.l' in open(patch).read():
            sh('flex --outfile=./src/lex.yy.c --header-file=./include/lex.yy.h --noline --nounistd ./src/lexer.l', cwd=os.path.join(wt, 'Compiler'))
        rc, out = sh(build_demo, cwd=wt)
        rc, out = sh('%s/demo_bin' % wt, cwd=wt, timeout=300)
        res['facts']['demo_fails_with_patch'] = rc != 0
        res['demo_output'] = out[-300:]
        shutil.rmtree(os.path.join(wt, '_build'), ignore_errors=True)
        man = json.load(open(os.path.join(VERIF, 'MANIFEST.json')))
        env = dict(os.environ)
        env['VERIF_REPO'] = wt
        env['VERIF_EVIDENCE_DIR'] = os.path.join(wt, '_evidence')
        caught, broken = {}, {}
        own_only = '--own' in sys.argv
        for c in man['checks']:
            p2 = c['property_id']
            if own_only and p2 != pid[:3]:
                continue
            r = subprocess.run([os.path.join(VERIF, 'check'), p2, '--tier', 'quick'], capture_output=True, text=True, env=env)
            lines = [l.strip() for l in r.stdout.split('\n') if l.strip().startswith('report:')]
            if r.returncode == 1:
                caught[p2] = [l[:220] for l in lines[:3]]
            elif r.returncode == 2:
                broken[p2] = [l.strip()[:220] for l in r.stdout.split('\n') if 'ANALYSIS-BROKEN' in l][:2]
        res['caught_by'] = caught
        res['analysis_broken'] = broken
        ok = all(res['facts'].get(k) for k in ('demo_passes_on_clean_tree', 'patch_applies', 'compiles', 'tests_pass', 'demo_fails_with_patch'))
        res['confirmed'] = ok
        print(json.dumps(res, indent=1))
        if keep and ok:
            d = os.path.join(VERIF, 'seeded', keep)
            os.makedirs(d, exist_ok=True)
            shutil.copy(patch, os.path.join(d, 'patch.diff'))
            shutil.copy(demo, os.path.join(d, 'demo.cpp'))
            json.dump(res, open(os.path.join(d, 'eval.json'), 'w'), indent=1)
        return 0
    finally:
        sh('git -C /repo worktree remove --force %s' % wt)
        shutil.rmtree(wt, ignore_errors=True)


if __name__ == '__main__':
    sys.exit(main())
