#!/usr/bin/env python3
"""Runs every check against a behaviour-preserving refactoring produced by a sub-agent.
usage: eval_benign.py <Bk> <N> [--keep]     reads /tmp/seed/<Bk>-out/refN.diff
Builds the patched tree and runs the 12 repository tests first (the refactoring must be valid),
then runs all checks with VERIF_REPO=<patched scratch tree>.  exit-1 results are false alarms."""
import json
import os
import shutil
import subprocess
import sys

VERIF = os.path.dirname(os.path.dirname(os.path.abspath(__file__)))


def sh(cmd, cwd=None, timeout=900):
    r = subprocess.run(cmd, shell=True, cwd=cwd, capture_output=True, text=True, errors='replace', timeout=timeout)
    return r.returncode, r.stdout + r.stderr


def main():
    b, n = sys.argv[1], sys.argv[2]
    patch = '/tmp/seed/%s-out/ref%s.diff' % (b, n)
    wt = '/tmp/evalben/%s-%s' % (b, n)
    os.makedirs('/tmp/evalben', exist_ok=True)
    sh('git -C /repo worktree remove --force %s' % wt)
    shutil.rmtree(wt, ignore_errors=True)
    sh('git -C /repo worktree add -q --detach %s HEAD' % wt)
    res = {'bank': b, 'n': n}
    try:
        rc, out = sh('git apply %s' % patch, cwd=wt)
        res['applies'] = rc == 0
        if rc != 0:
            print(json.dumps(res), out[-300:])
            return 1
        if '+++ b/Compiler/src/lexer.l' in open(patch).read():
            sh('flex --outfile=./src/lex.yy.c --header-file=./include/lex.yy.h --noline --nounistd ./src/lexer.l', cwd=os.path.join(wt, 'Compiler'))
        rc, out = sh('cmake -G Ninja -S . -B _build >/dev/null && cmake --build _build -j8', cwd=wt)
        res['compiles'] = rc == 0
        rc, out = sh('ctest --test-dir _build -j8', cwd=wt)
        res['tests_pass'] = rc == 0 and '100% tests passed' in out
        shutil.rmtree(os.path.join(wt, '_build'), ignore_errors=True)
        man = json.load(open(os.path.join(VERIF, 'MANIFEST.json')))
        env = dict(os.environ)
        env['VERIF_REPO'] = wt
        env['VERIF_EVIDENCE_DIR'] = os.path.join(wt, '_evidence')
        alarms, unknown = {}, {}
        for c in man['checks']:
            p2 = c['property_id']
            r = subprocess.run([os.path.join(VERIF, 'check'), p2, '--tier', 'quick'], capture_output=True, text=True, env=env)
            if r.returncode == 1:
                alarms[p2] = [l.strip()[:260] for l in r.stdout.split('\n') if l.strip().startswith('report:')][:3]
            elif r.returncode == 2:
                unknown[p2] = [l.strip()[:260] for l in (r.stdout + r.stderr).split('\n') if 'ANALYSIS-BROKEN' in l or 'Error' in l][:2]
        res['false_alarms'] = alarms
        res['cannot_classify'] = unknown
        print(json.dumps(res, indent=1))
        if '--keep' in sys.argv and res.get('compiles') and res.get('tests_pass'):
            d = os.path.join(VERIF, 'selftest', 'benign_agents')
            os.makedirs(d, exist_ok=True)
            shutil.copy(patch, os.path.join(d, '%s-ref%s.diff' % (b, n)))
            json.dump(res, open(os.path.join(d, '%s-ref%s.json' % (b, n)), 'w'), indent=1)
        return 0
    finally:
        sh('git -C /repo worktree remove --force %s' % wt)
        shutil.rmtree(wt, ignore_errors=True)


if __name__ == '__main__':
    sys.exit(main())
