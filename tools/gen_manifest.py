#!/usr/bin/env python3
"""Regenerates MANIFEST.json from the table below (kept in one place so that the manifest is
always valid and in step with engine/registry.py)."""
import json
import os
import sys

HERE = os.path.dirname(os.path.dirname(os.path.abspath(__file__)))
sys.path.insert(0, HERE)
from engine import registry  # noqa: E402

NOTE = ('Trusted: clang 14 front end, the extractor tools/theo_facts.cc, the Python rule engines and the oracle '
        'files in spec/. Assumes libstdc++ containers behave as specified. Static only: nothing under /repo is '
        'executed.')

CLAIMS = {
    'C01': ('ISA conformance of handler effect summaries; exhaustiveness; encoder/decoder agreement; lowering obligations as dominance chains with operand identity; typestate of temporaries',
            'PARTIAL. Decides the named compositional ingredients (each handler vs its ISA contract, every construct lowered to the right '
            'instruction skeleton with the right operand roles and order, union members agree between encoder and decoders, temporaries '
            'not used after release, zeroed frames). These are necessary conditions of semantic correctness for all programs; the '
            'end-to-end equality of results, general register liveness and the step-budget sentence are not decided.', '4/C01'),
    'C18': ('effect/purity analysis: static-storage inventory with mutation verdicts, external-callee classification, pointer-keyed container and address-comparison lint, ownership-by-value and state-locality rules',
            'Decides absence of shared mutable state and of nondeterminism sources over every library unit, which implies determinism '
            'and race freedom for all call orders and interleavings (assuming a thread-safe allocator/libstdc++). It is a whole-program '
            'structural argument, not an exploration of schedules. Also: errno is tested only after being cleared; containers received by reference are not consumed; no read of an unwritten token (shared C02.p).', '4/C18'),
    'C04': ('recogniser skeleton extracted from the parser, bounded language equality against the reference grammar, structural rules for error recording/propagation and static rules',
            'Decides, for every token sequence up to the bound (quick 13, thorough 17 tokens), that the real control flow of the parser '
            'accepts it without recording an error iff it is a sentence of the reference grammar - exhaustive within the bound, not '
            'sampled; a counterexample sentence is produced otherwise. Beyond the bound and for the generator-side static rules the '
            'check is structural (error recorded and blocking on the failing branch).', '4/C04'),
    'C14': ('regex -> DFA construction for the flex specification with flex disambiguation; decoded-table automaton equivalence; AST rules on the generated yylex; CFG rules on scan()',
            'Decides, on the automaton of the specification (all inputs at once), totality, the keyword table in both directions against '
            'the documented spellings, action/enum agreement and absence of shadowed rules; proves the committed tables equivalent to the '
            'specification by product construction and by byte-identical regeneration; checks every generated action and the scanner '
            'driver (token identity, final EOF, line/file labels, whole-buffer scanning). Include splicing order itself is covered '
            'structurally (C14.S2, C15.I4), not by running the scanner.', '4/C14'),
    'C15': ('guard/dominance rules over scan(), propositional guard implication, request data-flow',
            'Decides that each error kind is recorded under exactly its condition with the right request name, that a scanner is pushed '
            'only for an existing file not on the active stack (depth bounded by the number of files, so scanning terminates given finite '
            'files), that the recursion test inspects the whole stack, and that parse/compile return exactly the not-found names. Also: the main key reaches scan() unchanged and is never embedded in scanned text; requests are collected by error kind (evaluated over the error-kind enumeration).', '4/C15'),
    'C09': ('comparator evaluation over all orderings (strict weak order + reference order), loop/iterator shape and dataflow rules over apply_macros / get_replacement / detector tables',
            'PARTIAL. Decides the tie-break order exactly (finite evaluation of the comparator), the visiting order of priority bins, the '
            'splice, the three cases of body instantiation, the agreement of the kind tables and the leftmost scan. Does not decide that '
            'a detector matches exactly the derivations of its pattern or the longest match within one macro (LR engine). The slot languages of the pattern grammar are compared with the reference grammar for bounded EQUALITY; insertion indices are range-checked for n in {-1,0,slots-1,slots,slots+1}; every constrained literal is compared.', '4/C09'),
    'C10': ('dependency (taint) rule on the renaming expression + loop-counter dataflow',
            'Decides that the new name of a temporary is a function of (its text, the pass counter, per-definition values) only, contains '
            'a non-identifier character, becomes an ID, and that the pass counter identifies the expansion step (one rewrite per pass).', '4/C10'),
    'C11': ('loop-shape rules (bounded counter, mutation confinement, flag discipline) + error forwarding',
            'Decides that every mutation of the token stream is confined to a strictly bounded counted loop with one rewrite per '
            'iteration, for all inputs and macro sets, and that exhaustion is reported and forwarded. Termination of each detect() call '
            'is assumed. The one-rewrite-per-pass and flag clauses are path properties of the CFG (flag-sensitive reachability), the pass counter can hold every budget value (width and sign), the loop makes exactly budget passes (start value, uncast bound), and the merge of stage errors is unconditional and precedes the correctness decision (shared C02.e).', '4/C11'),
    'C12': ('data-flow/who-may-reach rules over detector lists, conflict-checked table writes, comparator evaluation of LR container keys',
            'PARTIAL. Decides that a conflict becomes exactly one error at the pattern position, that rejected detectors never reach the '
            'bins, that collection does not stop early, that every table write is conflict-checked and that prefix mode covers all columns. '
            'Does not decide that conflicts coincide with non-prefix-determinism. Also: the conflict verdict is produced by table generation on every path through the detector\'s constructor; the pattern grammar equals the language (shared C09.h); for every pattern up to 3 (thorough: 4) symbols over the slot kinds and eleven literals the conflict verdict of the table generator\'s criterion under the constructor\'s slot grammar equals the verdict under the reference slot grammar (C12.k, canonical LR(1) item sets); errors of all detectors are accumulated.', '4/C12'),
    'C02': ('allocation-site shape/nullness analysis of the syntax tree (parser + generator), guard/dominance rules for cursors, emptiness, ownership pairing, result dichotomy',
            'PARTIAL. Decides: no NULL syntax-tree pointer is dereferenced (parser on every execution with look-ahead-sensitive '
            'summaries; generator on every error-free tree shape), cursors/indices are guarded, back()/[0] only on provably '
            'non-empty sequences (with reasoned, re-verified exceptions), allocations are paired with releases on all paths, the '
            'result is correct XOR has errors, error records are well formed. Does not decide recursion-depth/work bounds, '
            'bad_alloc, libstdc++/flex internals or the LR driver stack discipline. Added later: no use of a reference/iterator into a sequence container after an invalidating operation; a token filled in by yylex is read only after a successful call; conversions do not throw out of compile(); macro work bounded by the pass budget (shared C11.a); the parser\'s recursion follows nesting, not length (five sequence recursions are a recorded known finding, D13); scalar locals are definitely assigned before they are read (C02.q).', '4/C02'),
    'C08': ('pairing / who-may-write rules over the two breakpoint tables; constant agreement across units',
            'Decides that both tables are updated together with the index of the emitted site and the current location, that '
            'removal is exact, that nobody else writes the tables or creates sites, that the hidden file is excluded by the '
            'same constant parse() uses, and that locations are copied pairwise from token positions: inverse-ness for all '
            'compiled programs by induction over emissions. Also: tokens created after scanning take file and line from one token; a location whose site list became empty is erased; removal is not done on a copy; the location is looked up before its entry is erased.', '4/C08'),
    'C16': ('who-may-write + dominance (registration after body), dominance chain and name-privacy of the LOOP counter',
            'Decides acyclicity of the call graph of every accepted source structurally (a routine is entered into the table only '
            'after its body and RET were generated; EXEC only after a successful lookup) and that the LOOP counter is a private, '
            'unique register written only by the decrement between head and back-jump. Halting follows by induction, not by running.', '4/C16'),
    'C07': ('emission-discipline rules (dominance, call-site inventories, constant agreement)',
            'PARTIAL. Decides the named necessary conditions of faithful stepping (listed in DESIGN.md 4/C07); it does not decide '
            'the exact stop sequence of arbitrary programs, which depends on run-time paths. Also: loop labels are set at the next emission position, only user marks at the mark position; the variable view walks the whole stack map for every frame that has a register.', '4/C07'),
    'C03': ('generator invariants: dominance on the CFG, register-provenance lattice, single-definition origin tracking; VM frame roles from handler summaries',
            'Decides the four well-formedness lemmas (root frame/HALT, jumps backpatched to labels set exactly once, every '
            'register operand from the current routine allocator and frame size recorded after the last allocation with one '
            'register per parameter, one consistent callee record in PREPARE/ARG/EXEC) on the generator itself, i.e. for all '
            'programs at once; the VM side (frame roles per opcode) from the handler summaries. It inspects no emitted program.', '4/C03'),
    'C19': ('effect summaries (abstract interpretation of VM handlers): growth/release pairing of data and activation stack',
            'Decides, for every path of every VM method, that data grows only when an activation is pushed (by exactly '
            'its recorded size, from its recorded start) and that every pop shrinks data to the popped start: an '
            'inductive invariant "data = frames of the live activations" for all programs and all executions. Not a '
            'proof of the C++ semantics; an exhaustive rule check over the handler summaries.', '4/C19'),
    'C20': ('interval analysis with C++ integer typing over VM stores; literal-conversion dataflow in the compiler',
            'Decides that every value stored into VM data stays in [0,2^31-1] and that no arithmetic sub-expression '
            'feeding a store can overflow its static type, given operand ranges that the compiler-side rules '
            '(checked literal conversions) establish. Covers all programs at once; does not execute any.', '4/C20'),
    'C17': ('field-wise comparison of constructor and reset effect summaries; HALT/isDone/execute shapes',
            'Decides that reset() assigns every field of the VM (set read from the record) the abstract value the '
            'constructor gives it, restores all break sites, and that HALT is effect-free and execute stops at the '
            'first true. Behavioural equivalence of later histories follows only under C05.a; stated, not proved.', '4/C17'),
    'C05': ('non-interference check over VM effect summaries (who-may-write + dependence on debugger state)',
            'Decides that no write to computation state depends on debugger state and that debugger entry points do '
            'not write computation state, for every path of every VM method: the classical non-interference argument, '
            'checked rule by rule on the current source. Holds for all histories; not a mechanised proof.', '4/C05'),
    'C06': ('return-value summaries per opcode; typestate of enabled set vs. site opcodes; comparator evaluation',
            'Decides the stop conditions of every handler, the lock-step update of enabled set and site opcodes, the '
            'failure path of setBreakPoint and the lookup key of getCurrentBreak. "First site on the path" additionally '
            'relies on C08 (tables consistent).', '4/C06'),
}

NA = {
    'C13': 'Recognition-correctness of an LR(1) table generator over all grammars x all inputs is algorithmic '
           'correctness; no clause of it is visible in the shape of the code. The structural facts it depends on '
           '(discriminating strict-weak-order keys, conflict-checked table writes) are checked under C12/C09/C06 where '
           'they are also necessary and are not presented as deciding C13.',
}

PENDING = 'check not registered yet in this commit (engine under construction; see DESIGN.md section 4 for the planned rules)'


def main():
    props = [json.loads(l)['id'] for l in open(os.path.join(HERE, 'properties.jsonl'))]
    checks = []
    for pid in props:
        if pid in registry.CHECKS and pid in CLAIMS:
            tech, text, ref = CLAIMS[pid]
            checks.append({
                'property_id': pid,
                'quick_cmd': './check %s --tier quick' % pid,
                'thorough_cmd': './check %s --tier thorough' % pid,
                'evidence_file': '/verif/evidence/%s.json' % pid,
                'replay_cmd_template': './check %s --replay {path}' % pid,
                'engine': 'theo-static',
                'level_claimed': {'category': 'other', 'text': text, 'design_ref': 'DESIGN.md section ' + ref},
                'level_note': NOTE,
                'technique': 'static analysis: ' + tech,
            })
    na = []
    for pid in props:
        if pid in [c['property_id'] for c in checks]:
            continue
        na.append({'property_id': pid, 'reason': NA.get(pid, PENDING)})
    m = {
        'version': 1,
        'setup_cmd': './setup.sh',
        'hooks': {
            'guard': 'THEO_IDE_LIBTHEO_VERIF',
            'enable': 'no hooks: the checks are static and never build or run /repo; the guard is reserved and never defined',
            'baseline_off_cmd': './baseline_off.sh',
            'source_commits': [],
            'add_only': True,
        },
        'engines': [{
            'name': 'theo-static',
            'path': 'check',
            'serves_properties': [c['property_id'] for c in checks],
            'kind_free_text': 'libTooling fact extractor (tools/theo_facts.cc) + stdlib-only Python rule engines '
                              '(engine/): effect summaries, intervals, dominance, shape/nullness, grammar and lexer '
                              'automata, comparator evaluation',
        }],
        'checks': checks,
        'not_applicable': na,
        'notes': 'Exit codes: 0 all obligations discharged, 1 VIOLATION (witness construct named), 2 analysis broken '
                 '(anchor vanished / count below floor / unsupported construct) - never a pass. Known and fixed '
                 'findings: known_findings.json.',
    }
    json.dump(m, open(os.path.join(HERE, 'MANIFEST.json'), 'w'), indent=1)
    print('MANIFEST.json: %d checks, %d not_applicable' % (len(checks), len(na)))


if __name__ == '__main__':
    main()
