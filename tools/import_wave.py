#!/usr/bin/env python3
"""Bookkeeping for a wave of seeded changes produced by sub-agents.
usage: import_wave.py <suffix>        e.g. import_wave.py f    (reads /tmp/seed/C??<suffix>-out/NOTES.md)
 - copies NOTES.md to seeded/<ID><suffix>-NOTES.md
 - fills seeded/needs.json (what was changed / what it needs to manifest) from the notes, for every kept seed seeded/<ID><suffix>-<N>
 - normalises the property id in eval.json to the three-character id"""
import glob
import json
import os
import re
import sys

VERIF = os.path.dirname(os.path.dirname(os.path.abspath(__file__)))


def main():
    suf = sys.argv[1]
    needs = json.load(open(os.path.join(VERIF, 'seeded', 'needs.json')))
    added, missing = 0, []
    for nd in sorted(glob.glob('/tmp/seed/C??%s-out/NOTES.md' % suf)):
        pid = os.path.basename(os.path.dirname(nd))[:-4]
        txt = open(nd, errors='replace').read()
        open(os.path.join(VERIF, 'seeded', '%s-NOTES.md' % pid), 'w').write(txt)
        heads = [(m.start(), m.group(0)) for m in re.finditer(r'^#{2,4}\s*(?:Change\s*|Patch\s*|patch\s*|Seed\s*)?(\d)\b[^\n]*', txt, flags=re.M)]
        secs = {}
        for i, (pos, h) in enumerate(heads):
            n = re.search(r'(\d)', h).group(1)
            end = heads[i + 1][0] if i + 1 < len(heads) else len(txt)
            secs.setdefault(n, (h, txt[pos:end]))
        for n in '123456789':
            name = '%s-%s' % (pid, n)
            if not os.path.isdir(os.path.join(VERIF, 'seeded', name)):
                continue
            if n in secs:
                h, body = secs[n]
                what = re.sub(r'^#+\s*(?:Change\s*|Patch\s*|patch\s*|Seed\s*)?\d\s*[-.:)]*\s*', '', h).strip().strip('`')
                m = re.search(r'^\**(?:Needs|Trigger|Manifests?)\**:?\**\s*(.*?)(?:\n\s*\n|\n[A-Z][a-z]+:)', body, flags=re.M | re.S)
                nd_ = re.sub(r'\s+', ' ', m.group(1)).strip() if m else ''
                needs[name] = [what[:200], nd_[:300]]
                added += 1
            else:
                missing.append(name)
    json.dump(needs, open(os.path.join(VERIF, 'seeded', 'needs.json'), 'w'), indent=1)
    for f in glob.glob(os.path.join(VERIF, 'seeded', 'C??%s-*' % suf, 'eval.json')):
        j = json.load(open(f))
        if len(j['property']) > 3:
            j['property'] = j['property'][:3]
            json.dump(j, open(f, 'w'), indent=1)
    print(added, 'entries; no section found for', missing)


if __name__ == '__main__':
    main()
