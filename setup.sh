#!/bin/sh
# Builds the fact extractor (E0) from files on disk only; offline.
set -e
cd "$(dirname "$0")"
mkdir -p build/cache evidence
if [ ! -x build/theo_facts ] || [ tools/theo_facts.cc -nt build/theo_facts ]; then
  clang++ $(llvm-config-14 --cxxflags) -std=c++17 -fno-rtti -O1 tools/theo_facts.cc -o build/theo_facts.tmp \
    /usr/lib/llvm-14/lib/libclang-cpp.so.14 /usr/lib/llvm-14/lib/libLLVM-14.so
  mv build/theo_facts.tmp build/theo_facts
fi
# positive controls: one seeded mutant per engine must be reported (the full bank runs in the thorough tier)
python3 ./selftest/run_mutants.py --smoke || echo "WARNING: positive controls did not all fire"

echo "setup ok"
