#!/bin/sh
# Runs the repository's own test suite with the verification guard OFF
# (no hooks exist; the guard THEO_IDE_LIBTHEO_VERIF is never defined), in a
# temporary build directory that is removed afterwards.
set -e
T=$(mktemp -d /tmp/theo-baseline-XXXXXX)
trap 'rm -rf "$T"' EXIT
cmake -G Ninja -S /repo -B "$T" >/dev/null
cmake --build "$T" -j16 >/dev/null
ctest --test-dir "$T" -j8 --timeout 900
